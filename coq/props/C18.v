(* C18 — every cloner adapter produces equal, deep and independent copies. *)
From Coq Require Import ZArith List Bool.
From Grpchan Require Import lib.Heap model.Cloner proofs.C18.
Import ListNotations.
Open Scope Z_scope.

(* all four strategies, every message (any shape and size), every pre-populated destination:
   a successful Copy gives a destination equal to the source, holding nothing of its previous
   content, keeping its own identity, and sharing no memory with the source *)
Theorem C18_copy : forall compat adapter out src n,
  (adapter = 1 \/ (m_dyn src = false /\ m_dyn out = false)) ->   (* dynamic representations: see F22 below *)
  msg_below n src -> msg_below n out -> good_copy out src n (copy_of compat adapter out src n).
Proof. exact copy_good. Qed.
Print Assumptions C18_copy.

Theorem C18_clone : forall compat adapter src n,
  m_dyn src = false -> msg_below n src -> good_clone src n (clone_of compat adapter src n).
Proof. exact clone_good. Qed.
Print Assumptions C18_clone.

Theorem C18_replaces : forall compat adapter out1 out2 src n,
  m_loc out1 = m_loc out2 -> m_ty out1 = m_ty out2 -> m_dyn out1 = m_dyn out2 -> m_proto out1 = m_proto out2 ->
  copy_of compat adapter out1 src n = copy_of compat adapter out2 src n.
Proof. exact copy_replaces. Qed.
Print Assumptions C18_replaces.

Theorem C18_refuses_other_type : forall compat adapter out src n,
  adapter <> 1 -> (adapter = 2 -> m_dyn src = false \/ m_dyn out = false) ->   (* see F23 below *)
  m_proto src = true -> m_proto out = true -> m_ty out <> m_ty src ->
  copy_of compat adapter out src n = Error.
Proof. exact mismatch_refused. Qed.
Print Assumptions C18_refuses_other_type.

Theorem C18_refuses_non_proto : forall compat adapter out src n,
  m_proto src = false -> copy_of compat adapter out src n = Error.
Proof. exact non_proto_refused. Qed.

Theorem C18_dyn_gen : forall compat adapter out src n,
  adapter <> 2 -> m_proto src = true -> m_proto out = true -> m_ty out = m_ty src -> compat (m_ty out) (m_ty src) = true ->
  exists c k, copy_of compat adapter out src n = Ok c k.
Proof. exact dyn_gen_copies. Qed.

(* KNOWN FINDING F20 *)
Theorem C18_codec_other_type_refuted :
  exists out src, m_ty out <> m_ty src /\
    match copy_of (fun _ _ => true) 1 out src 10 with Ok _ _ => True | _ => False end.
Proof. exact codec_mismatch_refuted. Qed.

(* KNOWN FINDING F22: with a dynamic message on either side the non-codec strategies share memory *)
Theorem C18_dynamic_shares_refuted :
  exists out src, m_dyn src = true /\
    match copy_of (fun a b => a =? b) 0 out src 10 with
    | Ok c _ => exists x, In x (locs (m_fields c)) /\ In x (msg_locs src)
    | _ => False
    end.
Proof. exact dyn_shares_refuted. Qed.

(* KNOWN FINDING F23: CloneFunc.Copy between two dynamic messages of different types is not refused *)
Theorem C18_clonefunc_dynamic_other_type_refuted :
  exists out src, m_ty out <> m_ty src /\
    match copy_of (fun a b => a =? b) 2 out src 10 with Ok c _ => m_ty c = m_ty src | _ => False end.
Proof. exact clonefunc_dyn_mismatch_refuted. Qed.

(* KNOWN FINDING F18 *)
Theorem C18_dyn_clone_refuted :
  forall compat src n, m_dyn src = true -> clone_of compat 1 src n = Panic /\ clone_of compat 3 src n = Panic.
Proof. exact dyn_clone_panics_refuted. Qed.

Theorem C18_example :
  let src := {| m_loc := 1; m_ty := 5; m_dyn := false; m_proto := true; m_fields := VNode 2 0 (VLeaf 9 VNil) (VLeaf 3 VNil) |} in
  let out := {| m_loc := 4; m_ty := 5; m_dyn := false; m_proto := true; m_fields := VNode 5 0 (VLeaf 1 (VLeaf 1 VNil)) VNil |} in
  copy_of (fun a b => a =? b) 0 out src 10 =
  Ok {| m_loc := 4; m_ty := 5; m_dyn := false; m_proto := true; m_fields := VNode 10 0 (VLeaf 9 VNil) (VLeaf 3 VNil) |} 11.
Proof. exact example. Qed.
