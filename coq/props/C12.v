(* C12 — method names resolve to exactly the registered handler, or fail cleanly. *)
From Coq Require Import ZArith String Ascii List Bool.
From Grpchan Require Import lib.Str model.Routing proofs.C12.
Import ListNotations.
Open Scope string_scope.

Theorem C12_inproc_resolves : forall reg unary s m,
  find_svc (r_name s) reg = Some s -> In m (methods_of unary s) -> no_slash (r_name s) = true ->
  route_inproc reg unary ("/" ++ r_name s ++ "/" ++ m) = Run (r_name s) m.
Proof. exact inproc_resolves. Qed.
Print Assumptions C12_inproc_resolves.

(* every method-name string: a handler runs only for its own name (with or without the leading
   slash), of its own kind; every other string -- unknown service or method, missing slash, extra
   segments, prefixes and suffixes, unary name used for a stream -- is Unimplemented *)
Theorem C12_inproc_only_own_name : forall reg unary n sv m,
  route_inproc reg unary n = Run sv m ->
  (n = "/" ++ sv ++ "/" ++ m \/ n = sv ++ "/" ++ m) /\
  exists s, find_svc sv reg = Some s /\ In m (methods_of unary s).
Proof. exact inproc_only_own_name. Qed.
Print Assumptions C12_inproc_only_own_name.

(* malformed names produce a status error rather than a panic: for EVERY string *)
Theorem C12_inproc_total : forall reg unary n, route_inproc reg unary n <> PanicIdx.
Proof. exact inproc_total. Qed.
Print Assumptions C12_inproc_total.

Theorem C12_inproc_malformed_examples : forall reg unary,
  route_inproc reg unary "" = Unimplemented /\ route_inproc reg unary "foo" = Unimplemented /\
  route_inproc reg unary "/" = Unimplemented /\ route_inproc reg unary "/foo" = Unimplemented.
Proof. exact malformed_refused. Qed.

(* HTTP, every absolute base path: client and server compute the same path for a plain
   service/method, and it identifies the pair *)
Theorem C12_http_join : forall base s m,
  plain s = true -> plain m = true -> join_segs base [s; m] = (clean_segs base ++ [s; m])%list.
Proof. exact http_join. Qed.
Theorem C12_http_injective : forall base s m s' m',
  plain s = true -> plain m = true -> plain s' = true -> plain m' = true ->
  (join_segs base [s; m] = join_segs base [s'; m'] <-> (s = s' /\ m = m')).
Proof. exact http_injective. Qed.
Print Assumptions C12_http_injective.

(* KNOWN FINDING F17: over HTTP a malformed name with empty or dot segments is normalised by
   path.Join and reaches the handler of the clean name *)
Theorem C12_http_malformed_refuted :
  exists name, join "/" name = join "/" "/S/M" /\ name <> "/S/M" /\ name <> "S/M".
Proof. exact http_normalises_refuted. Qed.
