(* C11 — the HTTP server runs handlers only for valid requests and always answers well-formed. *)
From Coq Require Import ZArith String List Bool.
From Grpchan Require Import gen.Wire gen.Codes model.StatusHttp model.HttpGate proofs.C11.
Import ListNotations.
Open Scope Z_scope.

Theorem C11_at_most_once_unary : forall r h, 0 <= u_user_calls (handle_method r h) <= 1.
Proof. exact unary_at_most_once. Qed.
Theorem C11_at_most_once_stream : forall r n h, 0 <= s_user_calls (handle_stream r n h) <= 1.
Proof. exact stream_at_most_once. Qed.

Theorem C11_only_if_valid_unary : forall r h,
  u_user_calls (handle_method r h) = 1 -> valid_unary r = true /\ body_ok r = true.
Proof. exact unary_only_if_valid. Qed.
Print Assumptions C11_only_if_valid_unary.
Theorem C11_only_if_valid_stream : forall r n h, s_user_calls (handle_stream r n h) = 1 -> valid_stream r = true.
Proof. exact stream_only_if_valid. Qed.

Theorem C11_refusals_unary : forall r h,
  (is_post r = false -> u_status (handle_method r h) = 405 /\ u_allow_post (handle_method r h) = true) /\
  (is_post r = true -> unary_codec (media r) = None -> u_status (handle_method r h) = 415) /\
  (is_post r = true -> unary_codec (media r) <> None -> bin_ok r = false -> u_status (handle_method r h) = 400).
Proof. exact unary_refusals. Qed.
Print Assumptions C11_refusals_unary.
Theorem C11_refusals_stream : forall r n h,
  (is_post r = false -> s_status (handle_stream r n h) = 405 /\ s_allow_post (handle_stream r n h) = true) /\
  (is_post r = true -> stream_codec (media r) = None -> s_status (handle_stream r n h) = 415) /\
  (is_post r = true -> stream_codec (media r) <> None -> bin_ok r = false -> s_status (handle_stream r n h) = 400).
Proof. exact stream_refusals. Qed.

Theorem C11_undecodable : forall r h,
  valid_unary r = true -> body_ok r = false ->
  u_user_calls (handle_method r h) = 0 /\ u_grpc_code (handle_method r h) = Some 3 /\ 400 <= u_status (handle_method r h) < 600.
Proof. exact unary_undecodable. Qed.
Print Assumptions C11_undecodable.

Theorem C11_json_same : forall r1 r2 h,
  media r1 = unary_ctype -> media r2 = json_ctype ->
  is_post r1 = is_post r2 -> bin_ok r1 = bin_ok r2 -> body_ok r1 = body_ok r2 ->
  handle_method r1 h = handle_method r2 h.
Proof. exact json_same. Qed.
Print Assumptions C11_json_same.

Theorem C11_one_trailer : forall r n h,
  s_user_calls (handle_stream r n h) = 1 ->
  exists c, s_frames (handle_stream r n h) = repeat Data n ++ [Trailer c] /\
            length (filter is_trailer (s_frames (handle_stream r n h))) = 1%nat.
Proof. exact one_trailer. Qed.
Print Assumptions C11_one_trailer.
Theorem C11_refused_no_frames : forall r n h, s_user_calls (handle_stream r n h) = 0 -> s_frames (handle_stream r n h) = [].
Proof. exact refused_no_frames. Qed.

(* obligations on the content types as they are in the source now *)
Theorem C11_json_not_for_streams : stream_codec json_ctype = None.
Proof. exact json_not_for_streams. Qed.
Theorem C11_ctypes_distinct : unary_ctype <> stream_ctype /\ unary_ctype <> json_ctype /\ stream_ctype <> json_ctype.
Proof. exact ctypes_distinct. Qed.
