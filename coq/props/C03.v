(* C03 — request metadata, response headers and trailers arrive complete and unaltered. *)
From Coq Require Import ZArith List Bool.
From Grpchan Require Import model.StreamSeq proofs.StreamSeq model.Ctx proofs.C10.
From Grpchan Require model.InprocStream proofs.StreamInv proofs.StreamOrder.
From Coq Require Import String.
From Grpchan Require lib.Str model.Creds model.UnaryMeta proofs.UnaryMeta.
Import ListNotations.
Open Scope Z_scope.

(* every trailer pair the handler set is delivered with the final status, for EVERY script and
   outcome (success or failure), multi-valued keys keeping all values in order *)
Theorem C03_trailers : forall script code, v_tlr (client_view (server_emit script code)) = tlr (run_script script).
Proof. exact trailers_delivered. Qed.
Print Assumptions C03_trailers.

(* the frames written so far are: at most one header frame, first, then messages only -- headers
   become observable no later than the first response message *)
Theorem C03_header_frame_first : forall script, shape_ok (out (run_script script)) = true.
Proof. intro script. now destruct (sinv_run script). Qed.
Print Assumptions C03_header_frame_first.

(* setting headers after they were sent (explicitly or by the first message) fails and changes nothing *)
Theorem C03_set_after_sent_fails : forall s m, phase s = 1 ->
  sstep s (SetHeader m) = {| phase := 1; hdr := hdr s; tlr := tlr s; out := out s; acks := acks s ++ [false] |} /\
  sstep s (SendHeader m) = {| phase := 1; hdr := hdr s; tlr := tlr s; out := out s; acks := acks s ++ [false] |}.
Proof. exact set_after_sent_fails. Qed.
Theorem C03_send_marks_sent : forall s x, phase (sstep s (SendMsg x)) = 1.
Proof. exact send_marks_headers_sent. Qed.

(* in-process request metadata: the handler's incoming metadata is exactly the caller's outgoing metadata (C10) *)
Theorem C03_request_metadata_inproc : forall m c, lookup KInMD (server_ctx m c) = option_map VMD (out_md c).
Proof. exact incoming_is_callers_outgoing. Qed.

(* The COMPLETE in-process stream, every interleaving (proofs/StreamOrder.v): while the caller's context
   is live, the frames the server side has put on the response channel are at most one header frame,
   then messages only, then at most one trailer frame, then at most one error frame -- so headers
   precede the first message and trailers follow the last one whatever the handler and the three
   client goroutines do, and whenever they do it. *)
Theorem C03_full_stream_frame_order : forall rs s hp hq,
  StreamOrder.hreach rs s hp hq -> InprocStream.cctx s = 0 ->
  exists h ds t e, hp = StreamOrder.shape h ds t e.
Proof. exact StreamOrder.frames_in_order. Qed.
Print Assumptions C03_full_stream_frame_order.

Theorem C03_full_stream_frame_order_nonvacuous :
  exists s hq, StreamOrder.hreach true s (StreamOrder.shape (Some [7]) [9] (Some [8]) (Some 5)) hq /\
               InprocStream.cctx s = 0 /\ StreamOrder.datas hq = [9].
Proof. exact StreamOrder.full_shape_reachable. Qed.

(* ---- unary calls over HTTP: the handler's trailers travel as prefixed HTTP headers (model/UnaryMeta.v) ----
   Every trailer key of the handler reaches the caller under that very key with all its values, whatever the
   other response metadata and whether the call failed or not; the key after the prefix is the key, for every
   name; reading "strip the prefix" as "trim its characters" is refuted on everyday names. *)
Theorem C03_unary_http_trailers_delivered : forall hmd tmd st name,
  Grpchan.proofs.UnaryMeta.clean_md hmd -> Grpchan.proofs.UnaryMeta.clean_md tmd ->
  Forall (fun kv => Grpchan.model.UnaryMeta.is_trailer_key (fst kv) = false) hmd -> name <> String.EmptyString ->
  Grpchan.model.Creds.md_get name (snd (Grpchan.model.UnaryMeta.client_split (Grpchan.model.UnaryMeta.server_unary_reply hmd tmd st)))
  = Grpchan.model.Creds.md_get name tmd.
Proof. exact Grpchan.proofs.UnaryMeta.trailers_delivered. Qed.
Print Assumptions C03_unary_http_trailers_delivered.

Theorem C03_unary_http_trailer_key : forall name, name <> String.EmptyString ->
  Grpchan.model.UnaryMeta.is_trailer_key (String.append Grpchan.model.UnaryMeta.trailer_prefix name) = true /\
  Grpchan.lib.Str.drop (String.length Grpchan.model.UnaryMeta.trailer_prefix) (String.append Grpchan.model.UnaryMeta.trailer_prefix name) = name.
Proof. exact Grpchan.proofs.UnaryMeta.trailer_key_roundtrip. Qed.

Theorem C03_unary_http_trim_cutset_refuted :
  Grpchan.model.UnaryMeta.trim_left (String.append Grpchan.model.UnaryMeta.trailer_prefix "trace-id"%string) Grpchan.model.UnaryMeta.trailer_prefix = "d"%string /\
  Grpchan.model.UnaryMeta.trim_left (String.append Grpchan.model.UnaryMeta.trailer_prefix "request-id"%string) Grpchan.model.UnaryMeta.trailer_prefix = "quest-id"%string /\
  Grpchan.model.UnaryMeta.trim_left (String.append Grpchan.model.UnaryMeta.trailer_prefix "t"%string) Grpchan.model.UnaryMeta.trailer_prefix = ""%string.
Proof. exact Grpchan.proofs.UnaryMeta.trim_cutset_refuted. Qed.

Theorem C03_unary_http_hypotheses_met :
  Grpchan.proofs.UnaryMeta.clean_md [("k", ["v1"; "v2"]); ("x-grpc-status", ["0:OK"])]%string /\
  Grpchan.proofs.UnaryMeta.clean_md [("trace-id", ["t"]); ("retry-after", ["5"])]%string /\
  Forall (fun kv => Grpchan.model.UnaryMeta.is_trailer_key (fst kv) = false) [("k", ["v1"; "v2"]); ("x-grpc-status", ["0:OK"])]%string.
Proof. exact Grpchan.proofs.UnaryMeta.trailers_delivered_applies. Qed.
