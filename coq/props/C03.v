(* C03 — request metadata, response headers and trailers arrive complete and unaltered. *)
From Coq Require Import ZArith List Bool.
From Grpchan Require Import model.StreamSeq proofs.StreamSeq model.Ctx proofs.C10.
Import ListNotations.
Open Scope Z_scope.

(* every trailer pair the handler set is delivered with the final status, for EVERY script and
   outcome (success or failure), multi-valued keys keeping all values in order *)
Theorem C03_trailers : forall script code, v_tlr (client_view (server_emit script code)) = tlr (run_script script).
Proof. exact trailers_delivered. Qed.
Print Assumptions C03_trailers.

(* the frames written so far are: at most one header frame, first, then messages only -- headers
   become observable no later than the first response message *)
Theorem C03_header_frame_first : forall script, shape_ok (out (run_script script)) = true.
Proof. intro script. now destruct (sinv_run script). Qed.
Print Assumptions C03_header_frame_first.

(* setting headers after they were sent (explicitly or by the first message) fails and changes nothing *)
Theorem C03_set_after_sent_fails : forall s m, phase s = 1 ->
  sstep s (SetHeader m) = {| phase := 1; hdr := hdr s; tlr := tlr s; out := out s; acks := acks s ++ [false] |} /\
  sstep s (SendHeader m) = {| phase := 1; hdr := hdr s; tlr := tlr s; out := out s; acks := acks s ++ [false] |}.
Proof. exact set_after_sent_fails. Qed.
Theorem C03_send_marks_sent : forall s x, phase (sstep s (SendMsg x)) = 1.
Proof. exact send_marks_headers_sent. Qed.

(* in-process request metadata: the handler's incoming metadata is exactly the caller's outgoing metadata (C10) *)
Theorem C03_request_metadata_inproc : forall m c, lookup KInMD (server_ctx m c) = option_map VMD (out_md c).
Proof. exact incoming_is_callers_outgoing. Qed.
