(* C07 — HTTP framing decodes safely.  Statements only. *)
From Coq Require Import ZArith List Bool.
From Grpchan Require Import lib.Int gen.Wire model.Framing proofs.C07 proofs.C07gen.
Import ListNotations.
Open Scope Z_scope.

Notation cdecode := (client_decode size_rejected client_size_rejected).
Notation sdecode := (server_decode size_rejected).
Notation sdecode1 := (server_decode_single size_rejected).

(* obligations on the guards as they are in the source now (gen/Wire.v) *)
Theorem C07_limit : 0 < max_size < 2 ^ 31.
Proof. exact max_ok. Qed.
Theorem C07_guard_server : forall n, size_rejected n = false <-> 0 <= n <= max_size.
Proof. exact srv_guard. Qed.
Print Assumptions C07_guard_server.
Theorem C07_guard_client : forall n, 0 <= n -> (client_size_rejected n = false <-> n <= max_size).
Proof. exact cli_guard. Qed.
Print Assumptions C07_guard_client.

(* the decoders yield exactly the framed messages that were encoded *)
Theorem C07_roundtrip_client : forall ms t e,
  Forall (fits max_size) ms -> fits max_size t -> t <> [] ->
  cdecode (enc_stream ms t) e = {| c_msgs := ms; c_fin := CTrailer t; c_allocs := map blen ms ++ [blen t] |}.
Proof. exact client_roundtrip_now. Qed.
Print Assumptions C07_roundtrip_client.

Theorem C07_roundtrip_server : forall ms,
  Forall (fits max_size) ms ->
  sdecode (enc_msgs ms) Clean = {| s_msgs := ms; s_fin := SErr EEOF; s_allocs := map blen ms |}.
Proof. exact server_roundtrip_now. Qed.
Print Assumptions C07_roundtrip_server.

(* never more than the per-message limit, never a negative size (which would panic in make),
   for EVERY byte string and either ending *)
Theorem C07_alloc_bound_client : forall bs e, Forall (alloc_ok max_size) (c_allocs (cdecode bs e)).
Proof. exact client_alloc_now. Qed.
Print Assumptions C07_alloc_bound_client.
Theorem C07_alloc_bound_server : forall bs e, Forall (alloc_ok max_size) (s_allocs (sdecode bs e)).
Proof. exact server_alloc_now. Qed.
Theorem C07_alloc_bound_server_single : forall bs e, Forall (alloc_ok max_size) (s_allocs (sdecode1 bs e)).
Proof. exact server_single_alloc_now. Qed.

(* without the client-side guard the bound fails: four bytes ask for 2 GiB *)
Theorem C07_alloc_bound_client_refuted_without_guard :
  c_allocs (client_decode size_rejected (fun _ => false) [127; 255; 255; 255] Clean) = [2147483647].
Proof. exact client_unguarded_witness. Qed.

(* no fabrication: what was delivered is literally in the input, each message after its own prefix *)
Theorem C07_no_fabrication_client : forall bs e,
  Forall is_byte bs -> is_prefix (enc_msgs (c_msgs (cdecode bs e))) bs = true.
Proof. exact client_nofab_now. Qed.
Print Assumptions C07_no_fabrication_client.
Theorem C07_no_fabrication_server : forall bs e,
  Forall is_byte bs -> is_prefix (enc_msgs (s_msgs (sdecode bs e))) bs = true.
Proof. exact server_nofab_now. Qed.

(* a reply cut at any offset before the end of the trailer frame is an error, and the
   messages delivered before the cut are an intact prefix of those sent *)
Theorem C07_truncation : forall ms t e k,
  Forall (fits max_size) ms -> fits max_size t -> t <> [] -> (k < length (enc_stream ms t))%nat ->
  cut_ok (cdecode (firstn k (enc_stream ms t)) e) ms.
Proof. exact client_truncation_now. Qed.
Print Assumptions C07_truncation.

(* the decoders are total: the fuel they run with is never exhausted *)
Theorem C07_total_client : forall bs e, c_fin (cdecode bs e) <> CFuel.
Proof. exact client_total_now. Qed.

(* the hypotheses are satisfiable: a concrete stream with an empty message round-trips *)
Theorem C07_example :
  cdecode (enc_stream [[1; 2; 3]; []; [255]] [8; 5]) Clean =
  {| c_msgs := [[1; 2; 3]; []; [255]]; c_fin := CTrailer [8; 5]; c_allocs := [3; 0; 1; 2] |}.
Proof. exact roundtrip_example. Qed.
