(* C14 — every gRPC status code survives the unary HTTP mapping.
   Only statements here; each is closed by `exact` of a lemma of proofs/C14.v. *)
From Coq Require Import ZArith String List Bool.
From Grpchan Require Import lib.Dec gen.Codes model.StatusHttp proofs.C14.
From Grpchan Require model.UnaryMeta proofs.UnaryMeta.
Import Coq.Lists.List.ListNotations.
Open Scope Z_scope.

(* every row of the documented table is what the server's switch returns *)
Theorem C14_doc_table_rows : forall c h s, In (c, h, s) doc_table -> http_of_code c = h.
Proof. exact doc_table_row. Qed.
Print Assumptions C14_doc_table_rows.

(* every non-OK code absent from the table gives 500, for every integer *)
Theorem C14_doc_table_complete : forall c, c <> 0 -> in_doc_table c = false -> http_of_code c = 500.
Proof. exact doc_table_complete. Qed.
Print Assumptions C14_doc_table_complete.

Theorem C14_doc_table_nonvacuous : doc_table <> nil.
Proof. exact doc_table_nonempty. Qed.

(* an error status for every non-OK code *)
Theorem C14_error_for_non_ok : forall c, c <> 0 -> 400 <= http_of_code c < 600.
Proof. exact error_for_non_ok. Qed.
Print Assumptions C14_error_for_non_ok.

(* 499 exactly when (Canceled or DeadlineExceeded) and the request context ended *)
Theorem C14_499 : forall c e, renderer_status c e = 499 <-> ((c = 1 \/ c = 4) /\ e = true).
Proof. exact renderer_499. Qed.
Print Assumptions C14_499.

Theorem C14_renderer_otherwise : forall c e, renderer_status c e <> 499 -> renderer_status c e = http_of_code c.
Proof. exact renderer_otherwise. Qed.

(* the rows starred in the documentation are exactly those subject to the 499 rule *)
Theorem C14_starred : forall c, in_doc_table c = true -> (starred c = true <-> renderer_status c true = 499).
Proof. exact starred_iff. Qed.
Print Assumptions C14_starred.

(* the caller recovers exactly the original code, whatever HTTP status was written
   (so also for a renderer that writes nothing: hs = 200), for every uint32 code *)
Theorem C14_code_recovered : forall c hs, 0 < c < 2 ^ 32 -> client_code hs (Some (status_header_code c)) = c.
Proof. exact code_recovered. Qed.
Print Assumptions C14_code_recovered.

Theorem C14_ok_error_is_internal : forall hs, client_code hs (Some (status_header_code 0)) = 13.
Proof. exact ok_error_is_internal. Qed.

(* without the status header: OK for 2xx only, for every integer status *)
Theorem C14_fallback : forall s, client_code s None = 0 <-> 200 <= s < 300.
Proof. exact fallback_client. Qed.
Print Assumptions C14_fallback.

(* the status of a failed unary call is SET on the reply after the handler's own response metadata was laid out:
   whatever that metadata says -- an x-grpc-status relayed from a backend call included -- the caller recovers
   the handler's code (model/UnaryMeta.v); had the status been added instead, a relayed "0:OK" would win *)
Theorem C14_unary_status_header_wins : forall hmd tmd c msg hs, 0 < c < 2 ^ 32 ->
  Grpchan.model.UnaryMeta.client_unary_code hs (Grpchan.model.UnaryMeta.server_unary_reply hmd tmd (Some (c, msg))) = c.
Proof. exact Grpchan.proofs.UnaryMeta.unary_code_recovered. Qed.
Print Assumptions C14_unary_status_header_wins.

Theorem C14_unary_status_added_refuted :
  Grpchan.model.UnaryMeta.client_unary_code 503
    (Grpchan.proofs.UnaryMeta.server_unary_reply_added [("x-grpc-status"%string, ["0:OK"%string])] nil 14 "backend down"%string) = 0.
Proof. exact Grpchan.proofs.UnaryMeta.added_status_refuted. Qed.
