(* C02 — the client sees exactly the handler's final status; success only if it succeeded. *)
From Coq Require Import ZArith List Bool.
From Grpchan Require model.HttpClient proofs.HttpClient corr.HttpSched proofs.HttpTrace.
From Grpchan Require model.InprocStream proofs.StreamOrder proofs.StreamDeliver proofs.StreamFinal.
From Grpchan Require Import model.StreamSeq proofs.StreamSeq model.StatusHttp proofs.C14 model.Framing proofs.C07 proofs.C07gen gen.Wire.
From Grpchan Require model.UnaryMeta proofs.UnaryMeta.
Import ListNotations.
Open Scope Z_scope.

(* streams (both transports share this content model): for EVERY handler script and return
   value, a client that reads the stream to its end obtains the handler's status -- io.EOF for a
   nil return, the status code otherwise (a handler's own io.EOF is reported as Unknown) *)
Theorem C02_stream_status : forall script code,
  v_fin (client_view (server_emit script code)) = if code =? 0 then FinEOF else FinStatus (final_code code).
Proof. exact status_is_handlers. Qed.
Print Assumptions C02_stream_status.

Theorem C02_stream_success_only_if_nil : forall script code,
  v_fin (client_view (server_emit script code)) = FinEOF -> code = 0.
Proof. exact success_only_if_nil. Qed.
Print Assumptions C02_stream_success_only_if_nil.

(* ... and together with every message the handler sent *)
Theorem C02_stream_complete : forall script code,
  v_msgs (client_view (server_emit script code)) = datas (out (run_script script)).
Proof. exact messages_delivered. Qed.

(* unary over HTTP: the caller recovers exactly the handler's code for every uint32 code (C14) *)
Theorem C02_unary_http_code : forall c hs, 0 < c < 2 ^ 32 -> client_code hs (Some (status_header_code c)) = c.
Proof. exact code_recovered. Qed.

(* a reply that is cut before the end of its trailer is an error, never success (C07) *)
Theorem C02_truncated_is_error : forall ms t e k,
  Forall (fits max_size) ms -> fits max_size t -> t <> [] -> (k < length (enc_stream ms t))%nat ->
  cut_ok (client_decode size_rejected client_size_rejected (firstn k (enc_stream ms t)) e) ms.
Proof. exact client_truncation_now. Qed.
Print Assumptions C02_truncated_is_error.

(* ---- the HTTP client stream as a concurrent system (model/HttpClient.v): the reader goroutine, the caller's
   receives, the transport's deliveries and the end of the context in every interleaving, for every reply body.
   hreach carries ghost histories: the frames the reader's loop read (rd), those the deferred ReadAll threw
   away (dn), and what RecvMsg returned (lg). *)

(* io.EOF is returned on a response stream only after the loop has read a trailer frame that says OK, and then
   every data frame it read has been delivered: over HTTP too a clean end of stream is a complete stream *)
Theorem C02_http_eof_means_complete : forall b0 e0 s rd dn lg,
  Grpchan.proofs.HttpClient.hreach true b0 e0 s rd dn lg -> Grpchan.model.HttpClient.respStream s = true ->
  In Grpchan.model.HttpClient.REOF lg ->
  Grpchan.model.HttpClient.tr s = Some 0 /\ Grpchan.model.HttpClient.rErr s = None /\
  Grpchan.proofs.HttpClient.datas rd = Grpchan.proofs.HttpClient.msgs_of lg.
Proof. exact Grpchan.proofs.HttpClient.eof_means_complete. Qed.
Print Assumptions C02_http_eof_means_complete.

(* a schedule of the real client accepted by the correspondence check is a run of that system whose
   receiver returned exactly the results the real client was observed to return, in order *)
Theorem C02_http_accepted_schedule_is_a_run : forall rs b0 e0 rounds,
  HttpSched.accepts_from [Grpchan.model.HttpClient.init rs b0 e0] rounds = true ->
  exists s rd dn, Grpchan.proofs.HttpClient.hreach rs b0 e0 s rd dn (HttpSched.all_res rounds) /\
                  Grpchan.proofs.HttpClient.Inv b0 s rd dn (HttpSched.all_res rounds).
Proof. exact HttpTrace.accepted_http_schedule_is_a_run. Qed.
Print Assumptions C02_http_accepted_schedule_is_a_run.

(* the COMPLETE in-process stream as a concurrent object (model/InprocStream.v, every interleaving of the five
   actors, cancellation and deadline, with ghost histories of what was put on the response channel): io.EOF
   from the client's RecvMsg means that the returning handler has closed the response channel, that no error
   frame was ever put on it, and that every message put on it has been delivered *)
Theorem C02_full_stream_eof_means_complete : forall s h,
  Grpchan.proofs.StreamDeliver.lreach true s h ->
  In (Grpchan.model.InprocStream.CR, Grpchan.model.InprocStream.CRecv, Grpchan.model.InprocStream.REOF)
     (Grpchan.proofs.StreamDeliver.lg h) ->
  Grpchan.model.InprocStream.respClosed s = true /\ Grpchan.model.InprocStream.respQ s = [] /\
  existsb Grpchan.proofs.StreamFinal.is_err (Grpchan.proofs.StreamDeliver.hp h) = false /\
  Grpchan.proofs.StreamOrder.datas (Grpchan.proofs.StreamDeliver.hp h) =
  Grpchan.proofs.StreamDeliver.client_msgs (Grpchan.proofs.StreamDeliver.lg h).
Proof. exact Grpchan.proofs.StreamFinal.eof_means_complete. Qed.
Print Assumptions C02_full_stream_eof_means_complete.

(* non-vacuity: a run with two messages and a trailer read to io.EOF *)
Theorem C02_full_stream_eof_run : exists s h,
  Grpchan.proofs.StreamDeliver.lreach true s h /\
  In (Grpchan.model.InprocStream.CR, Grpchan.model.InprocStream.CRecv, Grpchan.model.InprocStream.REOF)
     (Grpchan.proofs.StreamDeliver.lg h) /\
  Grpchan.proofs.StreamOrder.datas (Grpchan.proofs.StreamDeliver.hp h) = [9; 10]%Z /\
  Grpchan.proofs.StreamDeliver.client_msgs (Grpchan.proofs.StreamDeliver.lg h) = [9; 10]%Z.
Proof. exact Grpchan.proofs.StreamFinal.eof_run. Qed.

From Coq Require Import String.
Import Coq.Lists.List.ListNotations.
(* the status of a failed unary call is SET on the reply after the handler's own response metadata was laid out:
   whatever that metadata says -- an x-grpc-status relayed from a backend call included -- the caller recovers
   the handler's code (model/UnaryMeta.v); had the status been added instead, a relayed "0:OK" would win *)
Theorem C02_unary_status_header_wins : forall hmd tmd c msg hs, 0 < c < 2 ^ 32 ->
  Grpchan.model.UnaryMeta.client_unary_code hs (Grpchan.model.UnaryMeta.server_unary_reply hmd tmd (Some (c, msg))) = c.
Proof. exact Grpchan.proofs.UnaryMeta.unary_code_recovered. Qed.
Print Assumptions C02_unary_status_header_wins.

Theorem C02_unary_status_added_refuted :
  Grpchan.model.UnaryMeta.client_unary_code 503
    (Grpchan.proofs.UnaryMeta.server_unary_reply_added [("x-grpc-status"%string, ["0:OK"%string])] nil 14 "backend down"%string) = 0.
Proof. exact Grpchan.proofs.UnaryMeta.added_status_refuted. Qed.
