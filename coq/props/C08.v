(* C08 — single-response methods yield exactly one response or an error. *)
From Coq Require Import ZArith List Bool.
From Grpchan Require Import model.StreamSeq proofs.StreamSeq model.Framing gen.Wire proofs.C08.
Import ListNotations.
Open Scope Z_scope.

(* whatever frames the server emitted (any number of responses, headers, trailers, an error or not,
   in any arrangement): success with x only if exactly one response x was sent and no error *)
Theorem C08_exactly_one : forall fs y, single_recv fs = OneOk y -> datas fs = [y] /\ err_of fs = None.
Proof. exact single_ok_exactly_one. Qed.
Print Assumptions C08_exactly_one.

Theorem C08_one_gives_ok : forall fs y, datas fs = [y] -> err_of fs = None -> single_recv fs = OneOk y.
Proof. exact single_one_gives_ok. Qed.
Print Assumptions C08_one_gives_ok.

Theorem C08_zero_or_many_fails : forall fs,
  (datas fs = [] \/ (2 <= length (datas fs))%nat) -> forall y, single_recv fs <> OneOk y.
Proof. exact single_zero_or_many_fails. Qed.
Print Assumptions C08_zero_or_many_fails.

(* over HTTP the server rejects a second request message on a single-request method: whatever
   follows the first message (another frame, even an empty one, or garbage) is refused *)
Theorem C08_single_request_http : forall m rest e,
  blen m <= max_size -> rest <> [] ->
  s_fin (server_decode_single size_rejected (enc_frame m ++ rest) e) = STooMany /\
  s_msgs (server_decode_single size_rejected (enc_frame m ++ rest) e) = [].
Proof. exact C08_second_request. Qed.
