(* C08 — single-response methods yield exactly one response or an error. *)
From Coq Require Import ZArith List Bool.
From Grpchan Require Import model.StreamSeq proofs.StreamSeq model.Framing gen.Wire proofs.C08.
From Grpchan Require model.InprocStream proofs.StreamOrder proofs.StreamDeliver proofs.StreamFinal.
From Grpchan Require model.HttpClient proofs.HttpClient corr.HttpSched proofs.HttpTrace.
Import ListNotations.
Open Scope Z_scope.

(* whatever frames the server emitted (any number of responses, headers, trailers, an error or not,
   in any arrangement): success with x only if exactly one response x was sent and no error *)
Theorem C08_exactly_one : forall fs y, single_recv fs = OneOk y -> datas fs = [y] /\ err_of fs = None.
Proof. exact single_ok_exactly_one. Qed.
Print Assumptions C08_exactly_one.

Theorem C08_one_gives_ok : forall fs y, datas fs = [y] -> err_of fs = None -> single_recv fs = OneOk y.
Proof. exact single_one_gives_ok. Qed.
Print Assumptions C08_one_gives_ok.

Theorem C08_zero_or_many_fails : forall fs,
  (datas fs = [] \/ (2 <= length (datas fs))%nat) -> forall y, single_recv fs <> OneOk y.
Proof. exact single_zero_or_many_fails. Qed.
Print Assumptions C08_zero_or_many_fails.

(* over HTTP the server rejects a second request message on a single-request method: whatever
   follows the first message (another frame, even an empty one, or garbage) is refused *)
Theorem C08_single_request_http : forall m rest e,
  blen m <= max_size -> rest <> [] ->
  s_fin (server_decode_single size_rejected (enc_frame m ++ rest) e) = STooMany /\
  s_msgs (server_decode_single size_rejected (enc_frame m ++ rest) e) = [].
Proof. exact C08_second_request. Qed.
Print Assumptions C08_single_request_http.

(* the HTTP client stream as a concurrent object (model/HttpClient.v: the goroutine of doHttpCall that reads
   the response body, the caller's RecvMsg with its probe for a second message, the transport releasing
   frames one at a time and ending the body, in every interleaving): on a single-response method, while the
   caller's context is live, RecvMsg hands the caller a message x only when the body held exactly the one
   message x, the reader has finished on a trailer frame that says OK and no error was recorded ... *)
Theorem C08_http_single_response_exactly_one : forall b0 e0 s rd dn lg x,
  Grpchan.proofs.HttpClient.hreach false b0 e0 s rd dn lg -> Grpchan.model.HttpClient.cctx s = 0 ->
  In (Grpchan.model.HttpClient.RMsg x) lg ->
  Grpchan.proofs.HttpClient.msgs_of lg = [x] /\ Grpchan.proofs.HttpClient.datas rd = [x] /\
  Grpchan.model.HttpClient.rph s = Grpchan.model.HttpClient.RExit /\
  Grpchan.model.HttpClient.rErr s = None /\ Grpchan.model.HttpClient.tr s = Some 0.
Proof. exact Grpchan.proofs.HttpClient.single_response_exactly_one. Qed.
Print Assumptions C08_http_single_response_exactly_one.

(* ... and never more than one, whatever the server sent *)
Theorem C08_http_single_response_at_most_one : forall b0 e0 s rd dn lg,
  Grpchan.proofs.HttpClient.hreach false b0 e0 s rd dn lg -> Grpchan.model.HttpClient.cctx s = 0 ->
  (length (Grpchan.proofs.HttpClient.msgs_of lg) <= 1)%nat.
Proof. exact Grpchan.proofs.HttpClient.single_response_at_most_one. Qed.
Print Assumptions C08_http_single_response_at_most_one.

(* the same on what the real client was OBSERVED to return: a schedule of a single-response call accepted by
   the correspondence check, in which the caller's context stays live, handed the caller at most one message,
   and a message x only if the response body starts with frames whose data frames are exactly [x] *)
Theorem C08_http_accepted_single_response_schedule : forall b0 e0 rounds,
  HttpSched.accepts_from [Grpchan.model.HttpClient.init false b0 e0] rounds = true ->
  Forall (fun r : HttpSched.hround => HttpTrace.no_ctx_end (fst r)) rounds ->
  (length (HttpSched.got_msgs rounds) <= 1)%nat /\
  forall x, In (Grpchan.model.HttpClient.RMsg x) (HttpSched.all_res rounds) ->
    HttpSched.got_msgs rounds = [x] /\
    exists rd rest, b0 = rd ++ rest /\ Grpchan.proofs.HttpClient.datas rd = [x].
Proof. exact HttpTrace.accepted_single_response_schedule. Qed.
Print Assumptions C08_http_accepted_single_response_schedule.

(* non-vacuity: one response and an OK trailer is accepted with the message; two responses are accepted only
   with Internal *)
Example C08_http_schedules_nonvacuous :
  HttpSched.accepts_from [Grpchan.model.HttpClient.init false
      [Grpchan.model.HttpClient.EData 7; Grpchan.model.HttpClient.ETrailer 0] Grpchan.model.HttpClient.EndClean]
    [(Grpchan.model.HttpClient.Deliver, []); (Grpchan.model.HttpClient.Deliver, []);
     (Grpchan.model.HttpClient.EndBody, []); (Grpchan.model.HttpClient.Recv, [Grpchan.model.HttpClient.RMsg 7])] = true /\
  HttpSched.accepts_from [Grpchan.model.HttpClient.init false
      [Grpchan.model.HttpClient.EData 7; Grpchan.model.HttpClient.EData 8; Grpchan.model.HttpClient.ETrailer 0]
      Grpchan.model.HttpClient.EndClean]
    [(Grpchan.model.HttpClient.Deliver, []); (Grpchan.model.HttpClient.Deliver, []); (Grpchan.model.HttpClient.Deliver, []);
     (Grpchan.model.HttpClient.EndBody, []); (Grpchan.model.HttpClient.Recv, [Grpchan.model.HttpClient.RStatus 13])] = true /\
  HttpSched.accepts_from [Grpchan.model.HttpClient.init false
      [Grpchan.model.HttpClient.EData 7; Grpchan.model.HttpClient.EData 8; Grpchan.model.HttpClient.ETrailer 0]
      Grpchan.model.HttpClient.EndClean]
    [(Grpchan.model.HttpClient.Deliver, []); (Grpchan.model.HttpClient.Deliver, []); (Grpchan.model.HttpClient.Deliver, []);
     (Grpchan.model.HttpClient.EndBody, []); (Grpchan.model.HttpClient.Recv, [Grpchan.model.HttpClient.RMsg 7])] = false.
Proof. vm_compute. auto. Qed.

(* the COMPLETE in-process stream as a concurrent object (every interleaving, cancellation and deadline
   included): on a single-response method a message x handed to the caller is the ONLY message ever put on
   the response channel, no error frame was put on it, the returning handler has closed it, and the caller is
   handed no other message *)
Theorem C08_full_stream_single_response_means_one : forall s h x,
  Grpchan.proofs.StreamDeliver.lreach false s h ->
  In (Grpchan.model.InprocStream.CR, Grpchan.model.InprocStream.CRecv, Grpchan.model.InprocStream.RMsg x)
     (Grpchan.proofs.StreamDeliver.lg h) ->
  Grpchan.model.InprocStream.respClosed s = true /\
  existsb Grpchan.proofs.StreamFinal.is_err (Grpchan.proofs.StreamDeliver.hp h) = false /\
  Grpchan.proofs.StreamOrder.datas (Grpchan.proofs.StreamDeliver.hp h) = [x] /\
  Grpchan.proofs.StreamDeliver.client_msgs (Grpchan.proofs.StreamDeliver.lg h) = [x].
Proof. exact Grpchan.proofs.StreamFinal.single_response_means_one. Qed.
Print Assumptions C08_full_stream_single_response_means_one.

Theorem C08_full_stream_single_run : exists s h,
  Grpchan.proofs.StreamDeliver.lreach false s h /\
  In (Grpchan.model.InprocStream.CR, Grpchan.model.InprocStream.CRecv, Grpchan.model.InprocStream.RMsg 9)
     (Grpchan.proofs.StreamDeliver.lg h).
Proof. exact Grpchan.proofs.StreamFinal.single_run. Qed.
