(* C15 — the registry: exclusive type-checked registration, faithful lookup and service info. *)
From Coq Require Import ZArith String List Bool.
From Grpchan Require Import model.Registry proofs.C15.
Import ListNotations.
Open Scope Z_scope.

(* after ANY history, a name resolves to the first successful registration under it *)
Theorem C15_lookup : forall n ops, lookup n (final ops) = first_reg n ops.
Proof. exact lookup_history. Qed.
Print Assumptions C15_lookup.

Theorem C15_query : forall n ops,
  query (final ops) n = option_map (fun e => (d_id (e_desc e), e_handler e)) (first_reg n ops).
Proof. exact query_history. Qed.

(* nothing for names never successfully registered *)
Theorem C15_never_registered : forall n ops,
  (forall d h, ~ In (Reg d h true) ops \/ d_name d <> n) -> lookup n (final ops) = None.
Proof. intros n ops H. rewrite lookup_history. now apply first_reg_none. Qed.
Print Assumptions C15_never_registered.

(* a second registration of a name, or a handler that does not implement the interface,
   panics and leaves the registry exactly as it was *)
Theorem C15_exclusive : forall r d h i,
  i = false \/ lookup (d_name d) r <> None -> register r d h i = (r, Panic).
Proof. exact refused_unchanged. Qed.
Print Assumptions C15_exclusive.

Theorem C15_accepts : forall r d h,
  lookup (d_name d) r = None -> register r d h true = (r ++ [{| e_desc := d; e_handler := h |}], Done).
Proof. exact accepted_adds. Qed.

(* iteration visits every registration exactly once *)
Theorem C15_iterate_nodup : forall ops, NoDup (names (final ops)).
Proof. exact names_nodup. Qed.
Theorem C15_iterate_once : forall ops e, In e (final ops) <-> first_reg (d_name (e_desc e)) ops = Some e.
Proof. exact iterate_once. Qed.
Print Assumptions C15_iterate_once.

(* service info equals the reference server's (descriptors with distinct method names) *)
Theorem C15_info : forall r, Forall (fun e => well_named (e_desc e)) r -> service_info r = ref_service_info r.
Proof. exact info_matches_reference. Qed.
Print Assumptions C15_info.

Theorem C15_example :
  snd (run [] [Reg dA 10 false; Reg dA 11 true; Reg dA' 12 true; Reg dB 13 true; Query "a.A"; Query "c.C"; Each]) =
  [OPanic; ODone; OPanic; ODone; OQuery (Some (1, 11)); OQuery None; OEach [("a.A"%string, 1, 11); ("b.B"%string, 3, 13)]].
Proof. exact example_history. Qed.
