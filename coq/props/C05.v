(* C05 — stream operations terminate; no deadlock, panic or leaked goroutine (in-process core). *)
From Coq Require Import ZArith List Bool Lia.
From Grpchan Require Import gen.Inproc model.Chan1 proofs.Chan1.
From Grpchan Require model.HttpClient proofs.HttpClient.
From Grpchan Require model.InprocStream proofs.StreamInv corr.Stream proofs.StreamTrace proofs.StreamLive proofs.HttpLive.
Import ListNotations.
Close Scope Z_scope.

(* no interleaving of sends, receives, CloseSend (any number of times, racing sends), cancellation
   and completion makes the library send on or re-close a closed channel *)
Theorem C05_no_panic : forall cap s, reachable cap s -> panicked s = false.
Proof. exact no_panic. Qed.
Print Assumptions C05_no_panic.

(* once the peer is done or the context has ended, a send always has an enabled completion *)
Theorem C05_send_terminates : forall cap s x,
  send_closed s = false -> (ctx s = true \/ remote s = true) -> send_enabled cap s x = true.
Proof. intros cap s x Hs H. apply unblocked_by; [exact Hs|]. destruct H; auto. Qed.
Print Assumptions C05_send_terminates.

(* once the receiver's context has ended, or the channel is closed and drained, or a message is
   buffered, a receive has an enabled completion *)
Theorem C05_recv_terminates : forall cap s,
  (rdone s = true \/ q s <> [] \/ (q s = [] /\ closed s = true)) ->
  step cap s RecvCtx <> None \/ step cap s RecvDeq <> None \/ step cap s RecvClosed <> None.
Proof.
  intros cap s [H|[H|[H1 H2]]].
  - left. cbn. rewrite H. discriminate.
  - right. left. cbn. destruct (q s); [contradiction|discriminate].
  - right. right. cbn. rewrite H1, H2. discriminate.
Qed.

(* The same for the COMPLETE in-process stream (model/InprocStream.v: both directions, the header,
   trailer and error frames of the returning handler, the client's receive states, cancellation and
   deadline): in every state reachable by any operation starts of the four actors, at any time, and
   any order of internal steps, no send on or close of a closed channel has happened, provided the
   handler returns once.  This is the model the STREAM/C05 schedules are checked against. *)
Theorem C05_full_stream_no_panic : forall rs s,
  StreamInv.reachable rs s -> InprocStream.panicked s = false.
Proof. exact StreamInv.reachable_never_panics. Qed.
Print Assumptions C05_full_stream_no_panic.

(* the response channel is closed by nobody but the returning handler *)
Theorem C05_full_stream_close_once : forall rs s,
  StreamInv.reachable rs s -> InprocStream.respClosed s = true ->
  InprocStream.svrDone s = true /\ InprocStream.sState s = 2%Z.
Proof. exact StreamInv.reachable_resp_closed_only_after_return. Qed.
Print Assumptions C05_full_stream_close_once.

(* What the correspondence check establishes when it accepts a schedule observed on the real code
   (corr/Stream.v accepts_from): the observed rounds ARE a run of the LTS from its initial state, and
   the state it ends in is reachable, hence satisfies the invariant (nothing panicked, bounded buffers). *)
Theorem C05_accepted_schedule_is_a_safe_run : forall rs rounds,
  Stream.accepts_from [InprocStream.init rs] rounds = true ->
  exists s3, StreamTrace.exhibits (InprocStream.init rs) rounds s3 /\ StreamInv.reachable rs s3 /\ StreamInv.Inv s3.
Proof. exact StreamTrace.accepted_schedule_is_a_safe_run. Qed.
Print Assumptions C05_accepted_schedule_is_a_safe_run.

(* ---- the HTTP client stream as a concurrent system (model/HttpClient.v): the reader goroutine, the caller's
   receives, the transport's deliveries and the end of the context in every interleaving, for every reply body.
   hreach carries ghost histories: the frames the reader's loop read (rd), those the deferred ReadAll threw
   away (dn), and what RecvMsg returned (lg). *)

(* the two "this shouldn't be possible" panics of the HTTP client's RecvMsg are unreachable *)
Theorem C05_http_no_sanity_panic : forall rs b0 e0 s rd dn lg,
  Grpchan.proofs.HttpClient.hreach rs b0 e0 s rd dn lg -> Grpchan.model.HttpClient.panicked s = false.
Proof. exact Grpchan.proofs.HttpClient.no_sanity_panic. Qed.
Print Assumptions C05_http_no_sanity_panic.

(* ---- termination over the COMPLETE in-process stream LTS (proofs/StreamLive.v) ---- *)

(* every run of internal steps is finite: n steps from s leave at least n units of the measure; with the
   buffer bound that is at most resp_cap + 40 steps between two events of the environment (no livelock) *)
Theorem C05_full_stream_internal_runs_are_bounded : forall rs s n s',
  Grpchan.proofs.StreamInv.reachable rs s -> Grpchan.proofs.StreamLive.irun s n s' ->
  (n <= Grpchan.model.InprocStream.resp_capn + 40)%nat.
Proof. exact Grpchan.proofs.StreamLive.internal_run_length. Qed.
Print Assumptions C05_full_stream_internal_runs_are_bounded.

(* once the call's context has ended, or the handler has completely returned (its response channel is
   closed), a state in which nothing can move has no pending operation of any actor: every SendMsg,
   CloseSend, RecvMsg, Header on the client side and every operation on the handler side has returned *)
Theorem C05_full_stream_nothing_blocked_when_over : forall rs s a,
  Grpchan.proofs.StreamLive.wreach rs s -> Grpchan.proofs.StreamLive.quiescent s ->
  Grpchan.model.InprocStream.cctx s <> 0%Z \/ Grpchan.model.InprocStream.respClosed s = true ->
  Grpchan.model.InprocStream.get_pend s a = None.
Proof. exact Grpchan.proofs.StreamLive.nothing_blocked_when_over. Qed.
Print Assumptions C05_full_stream_nothing_blocked_when_over.

(* as soon as the handler has returned (the library may still be flushing its final frames, which waits for
   the client to make room while the context is live) nothing but that flush is pending *)
Theorem C05_full_stream_only_the_return_waits : forall rs s a,
  Grpchan.proofs.StreamLive.wreach rs s -> Grpchan.proofs.StreamLive.quiescent s ->
  Grpchan.model.InprocStream.svrDone s = true -> a <> Grpchan.model.InprocStream.H ->
  Grpchan.model.InprocStream.get_pend s a = None.
Proof. exact Grpchan.proofs.StreamLive.only_the_return_waits_after_return. Qed.
Print Assumptions C05_full_stream_only_the_return_waits.

Theorem C05_full_stream_over_state_reachable : exists s,
  Grpchan.proofs.StreamLive.wreach true s /\ Grpchan.proofs.StreamLive.quiescent s /\
  Grpchan.model.InprocStream.respClosed s = true /\ Grpchan.model.InprocStream.svrDone s = true.
Proof. exact Grpchan.proofs.StreamLive.over_state_reachable. Qed.

(* ---- termination of the HTTP client stream (proofs/HttpLive.v) ---- *)

Theorem C05_http_internal_runs_are_bounded : forall s n s',
  Grpchan.proofs.HttpLive.irun s n s' -> (n <= 3 * length (Grpchan.model.HttpClient.body s) + 9)%nat.
Proof. exact Grpchan.proofs.HttpLive.internal_run_length. Qed.
Print Assumptions C05_http_internal_runs_are_bounded.

(* once the call's context has ended (the caller's, or by the library's own cancel), or the stream has been
   marked done, or the transport has delivered the end of the body: no RecvMsg stays blocked *)
Theorem C05_http_no_blocked_receive : forall rs b0 e0 s rd dn lg,
  Grpchan.proofs.HttpClient.hreach rs b0 e0 s rd dn lg -> Grpchan.proofs.HttpLive.quiescent s ->
  Grpchan.model.HttpClient.sctx s <> 0%Z \/ Grpchan.model.HttpClient.done s = true \/
  Grpchan.model.HttpClient.ended s = true ->
  Grpchan.model.HttpClient.pCR s = None.
Proof. exact Grpchan.proofs.HttpLive.no_blocked_receive. Qed.
Print Assumptions C05_http_no_blocked_receive.

(* the verdicts of the correspondence check never come from running out of exploration fuel *)
Theorem C05_full_stream_exploration_fuel_suffices : forall rs s acc,
  Grpchan.proofs.StreamInv.reachable rs s -> ~ In None (Grpchan.model.InprocStream.explore 60 s acc).
Proof. exact Grpchan.proofs.StreamLive.exploration_never_runs_out_of_fuel. Qed.
Print Assumptions C05_full_stream_exploration_fuel_suffices.

Theorem C05_http_exploration_fuel_suffices : forall s acc,
  (length (Grpchan.model.HttpClient.body s) <= 10)%nat -> ~ In None (Grpchan.model.HttpClient.explore 40 s acc).
Proof. exact Grpchan.proofs.HttpLive.exploration_never_runs_out_of_fuel. Qed.
Print Assumptions C05_http_exploration_fuel_suffices.
