(* C05 — stream operations terminate; no deadlock, panic or leaked goroutine (in-process core). *)
From Coq Require Import ZArith List Bool Lia.
From Grpchan Require Import gen.Inproc model.Chan1 proofs.Chan1.
From Grpchan Require model.HttpClient proofs.HttpClient.
From Grpchan Require model.InprocStream proofs.StreamInv corr.Stream proofs.StreamTrace.
Import ListNotations.
Close Scope Z_scope.

(* no interleaving of sends, receives, CloseSend (any number of times, racing sends), cancellation
   and completion makes the library send on or re-close a closed channel *)
Theorem C05_no_panic : forall cap s, reachable cap s -> panicked s = false.
Proof. exact no_panic. Qed.
Print Assumptions C05_no_panic.

(* once the peer is done or the context has ended, a send always has an enabled completion *)
Theorem C05_send_terminates : forall cap s x,
  send_closed s = false -> (ctx s = true \/ remote s = true) -> send_enabled cap s x = true.
Proof. intros cap s x Hs H. apply unblocked_by; [exact Hs|]. destruct H; auto. Qed.
Print Assumptions C05_send_terminates.

(* once the receiver's context has ended, or the channel is closed and drained, or a message is
   buffered, a receive has an enabled completion *)
Theorem C05_recv_terminates : forall cap s,
  (rdone s = true \/ q s <> [] \/ (q s = [] /\ closed s = true)) ->
  step cap s RecvCtx <> None \/ step cap s RecvDeq <> None \/ step cap s RecvClosed <> None.
Proof.
  intros cap s [H|[H|[H1 H2]]].
  - left. cbn. rewrite H. discriminate.
  - right. left. cbn. destruct (q s); [contradiction|discriminate].
  - right. right. cbn. rewrite H1, H2. discriminate.
Qed.

(* The same for the COMPLETE in-process stream (model/InprocStream.v: both directions, the header,
   trailer and error frames of the returning handler, the client's receive states, cancellation and
   deadline): in every state reachable by any operation starts of the four actors, at any time, and
   any order of internal steps, no send on or close of a closed channel has happened, provided the
   handler returns once.  This is the model the STREAM/C05 schedules are checked against. *)
Theorem C05_full_stream_no_panic : forall rs s,
  StreamInv.reachable rs s -> InprocStream.panicked s = false.
Proof. exact StreamInv.reachable_never_panics. Qed.
Print Assumptions C05_full_stream_no_panic.

(* the response channel is closed by nobody but the returning handler *)
Theorem C05_full_stream_close_once : forall rs s,
  StreamInv.reachable rs s -> InprocStream.respClosed s = true ->
  InprocStream.svrDone s = true /\ InprocStream.sState s = 2%Z.
Proof. exact StreamInv.reachable_resp_closed_only_after_return. Qed.
Print Assumptions C05_full_stream_close_once.

(* What the correspondence check establishes when it accepts a schedule observed on the real code
   (corr/Stream.v accepts_from): the observed rounds ARE a run of the LTS from its initial state, and
   the state it ends in is reachable, hence satisfies the invariant (nothing panicked, bounded buffers). *)
Theorem C05_accepted_schedule_is_a_safe_run : forall rs rounds,
  Stream.accepts_from [InprocStream.init rs] rounds = true ->
  exists s3, StreamTrace.exhibits (InprocStream.init rs) rounds s3 /\ StreamInv.reachable rs s3 /\ StreamInv.Inv s3.
Proof. exact StreamTrace.accepted_schedule_is_a_safe_run. Qed.
Print Assumptions C05_accepted_schedule_is_a_safe_run.

(* ---- the HTTP client stream as a concurrent system (model/HttpClient.v): the reader goroutine, the caller's
   receives, the transport's deliveries and the end of the context in every interleaving, for every reply body.
   hreach carries ghost histories: the frames the reader's loop read (rd), those the deferred ReadAll threw
   away (dn), and what RecvMsg returned (lg). *)

(* the two "this shouldn't be possible" panics of the HTTP client's RecvMsg are unreachable *)
Theorem C05_http_no_sanity_panic : forall rs b0 e0 s rd dn lg,
  Grpchan.proofs.HttpClient.hreach rs b0 e0 s rd dn lg -> Grpchan.model.HttpClient.panicked s = false.
Proof. exact Grpchan.proofs.HttpClient.no_sanity_panic. Qed.
Print Assumptions C05_http_no_sanity_panic.
