(* C06 — in-process calls never share message memory between caller and handler. *)
From Coq Require Import ZArith List Bool.
From Grpchan Require Import lib.Heap model.Cloner proofs.C18 model.LateRead proofs.C06.
Import ListNotations.

(* a send hands the peer a Clone of the caller's message: equal content, no shared memory
   (every cloner configuration; dynamic representations: known finding F22, see C18) *)
Theorem C06_send_clones : forall compat adapter src n,
  m_dyn src = false -> msg_below n src -> good_clone src n (clone_of compat adapter src n).
Proof. exact clone_good. Qed.
Print Assumptions C06_send_clones.

(* a receive Copies the frame into the caller's destination: equal, nothing of the destination's
   previous content, nothing shared with the frame (hence with the peer's object) *)
Theorem C06_recv_copies : forall compat adapter out src n,
  (adapter = 1%Z \/ (m_dyn src = false /\ m_dyn out = false)) ->
  msg_below n src -> msg_below n out -> good_copy out src n (copy_of compat adapter out src n).
Proof. exact copy_good. Qed.
Print Assumptions C06_recv_copies.

Theorem C06_overwrite : forall compat adapter out1 out2 src n,
  m_loc out1 = m_loc out2 -> m_ty out1 = m_ty out2 -> m_dyn out1 = m_dyn out2 -> m_proto out1 = m_proto out2 ->
  copy_of compat adapter out1 src n = copy_of compat adapter out2 src n.
Proof. exact copy_replaces. Qed.

(* unary calls: while the context is live the request is read before the call returns ... *)
Theorem C06_no_late_read_without_cancel : forall s, reachable s -> ctx_done s = false -> late_read (trace s) false = false.
Proof. exact no_late_read_without_cancel. Qed.
Print Assumptions C06_no_late_read_without_cancel.

(* ... KNOWN FINDING F13: a call that returns through its context leaves the decode closure to
   read the caller's message afterwards *)
Theorem C06_no_late_read_refuted : exists s, reachable s /\ late_read (trace s) false = true.
Proof. exact late_read_refuted. Qed.
