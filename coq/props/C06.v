(* C06 — in-process calls never share message memory between caller and handler. *)
From Coq Require Import ZArith List Bool.
From Grpchan Require Import lib.Heap model.Cloner proofs.C18 model.LateRead proofs.C06.
From Grpchan Require model.LateWrite proofs.LateWrite.
Import ListNotations.

(* a send hands the peer a Clone of the caller's message: equal content, no shared memory
   (every cloner configuration; dynamic representations: known finding F22, see C18) *)
Theorem C06_send_clones : forall compat adapter src n,
  m_dyn src = false -> msg_below n src -> good_clone src n (clone_of compat adapter src n).
Proof. exact clone_good. Qed.
Print Assumptions C06_send_clones.

(* a receive Copies the frame into the caller's destination: equal, nothing of the destination's
   previous content, nothing shared with the frame (hence with the peer's object) *)
Theorem C06_recv_copies : forall compat adapter out src n,
  (adapter = 1%Z \/ (m_dyn src = false /\ m_dyn out = false)) ->
  msg_below n src -> msg_below n out -> good_copy out src n (copy_of compat adapter out src n).
Proof. exact copy_good. Qed.
Print Assumptions C06_recv_copies.

Theorem C06_overwrite : forall compat adapter out1 out2 src n,
  m_loc out1 = m_loc out2 -> m_ty out1 = m_ty out2 -> m_dyn out1 = m_dyn out2 -> m_proto out1 = m_proto out2 ->
  copy_of compat adapter out1 src n = copy_of compat adapter out2 src n.
Proof. exact copy_replaces. Qed.

(* unary calls: while the context is live the request is read before the call returns ... *)
Theorem C06_no_late_read_without_cancel : forall s, reachable s -> ctx_done s = false -> late_read (trace s) false = false.
Proof. exact no_late_read_without_cancel. Qed.
Print Assumptions C06_no_late_read_without_cancel.

(* ... KNOWN FINDING F13: a call that returns through its context leaves the decode closure to
   read the caller's message afterwards *)
Theorem C06_no_late_read_refuted : exists s, reachable s /\ late_read (trace s) false = true.
Proof. exact late_read_refuted. Qed.
Print Assumptions C06_no_late_read_refuted.

(* the response: whatever the interleaving of the server goroutine (enqueue the data frame, close), the
   caller's loop (copy the frame into the caller's message, return on close, return on context) and
   cancellation, the caller's response message is never written after Invoke has returned -- an
   abandoned call's late answer stays in the channel *)
Theorem C06_no_late_write : forall s,
  Grpchan.model.LateWrite.reachable s ->
  Grpchan.model.LateWrite.late_write (Grpchan.model.LateWrite.trace s) false = false.
Proof. exact Grpchan.proofs.LateWrite.no_late_write. Qed.
Print Assumptions C06_no_late_write.

(* the correspondence check accepts an observed event trace of the real call only if the LTS can produce
   it; what it accepts has no late write *)
Theorem C06_accepted_trace_has_no_late_write : forall f t,
  Grpchan.model.LateWrite.possible f Grpchan.model.LateWrite.init t = true ->
  Grpchan.model.LateWrite.late_write t false = false.
Proof. exact Grpchan.proofs.LateWrite.accepted_trace_has_no_late_write. Qed.
Print Assumptions C06_accepted_trace_has_no_late_write.

(* non-vacuity: the abandoned-then-answered run is reachable *)
Theorem C06_abandoned_then_answered : exists s,
  Grpchan.model.LateWrite.reachable s /\ Grpchan.model.LateWrite.returned s = true /\
  Grpchan.model.LateWrite.sent s = true /\ Grpchan.model.LateWrite.copied s = false.
Proof. exact Grpchan.proofs.LateWrite.abandoned_then_answered. Qed.
