(* C01 — every message is delivered exactly once, in order and intact (in-process core).
   Per direction of a stream (model/Chan1.v): for every reachable state of the channel LTS,
   i.e. all message counts and all interleavings of sender, receiver, canceller, closer. *)
From Coq Require Import ZArith List Bool Lia.
From Grpchan Require Import gen.Inproc model.Chan1 proofs.Chan1.
Import ListNotations.
Close Scope Z_scope.

(* at every moment what the receiver has obtained is a prefix of what its peer's sends acknowledged *)
Theorem C01_prefix : forall cap s, reachable cap s -> prefix (got s) (sent_ok s).
Proof. exact got_prefix_sent. Qed.
Print Assumptions C01_prefix.

(* when the receiver sees the clean end of the stream the two sequences are equal *)
Theorem C01_complete : forall cap s,
  reachable cap s -> rdone s = false -> step cap s RecvClosed = Some s -> got s = sent_ok s.
Proof. exact complete_at_eof. Qed.
Print Assumptions C01_complete.

(* nothing is invented or duplicated: everything taken off the channel was enqueued, in order *)
Theorem C01_fifo : forall cap s, reachable cap s -> enq s = taken s ++ q s.
Proof. intros cap s R. now destruct (inv_reachable cap s R). Qed.
Print Assumptions C01_fifo.

Theorem C01_example : exists s, reachable 1 s /\ length (sent_ok s) = 2 /\ length (taken s) = 1 /\ got s = [7%Z].
Proof. exact tight_run. Qed.
