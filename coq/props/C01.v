(* C01 — every message is delivered exactly once, in order and intact (in-process core).
   Per direction of a stream (model/Chan1.v): for every reachable state of the channel LTS,
   i.e. all message counts and all interleavings of sender, receiver, canceller, closer. *)
From Coq Require Import ZArith List Bool Lia.
From Grpchan Require Import gen.Inproc model.Chan1 proofs.Chan1.
From Grpchan Require model.HttpClient proofs.HttpClient.
From Grpchan Require model.InprocStream proofs.StreamInv proofs.StreamOrder proofs.StreamDeliver.
Import ListNotations.
Close Scope Z_scope.

(* at every moment what the receiver has obtained is a prefix of what its peer's sends acknowledged *)
Theorem C01_prefix : forall cap s, reachable cap s -> prefix (got s) (sent_ok s).
Proof. exact got_prefix_sent. Qed.
Print Assumptions C01_prefix.

(* when the receiver sees the clean end of the stream the two sequences are equal *)
Theorem C01_complete : forall cap s,
  reachable cap s -> rdone s = false -> step cap s RecvClosed = Some s -> got s = sent_ok s.
Proof. exact complete_at_eof. Qed.
Print Assumptions C01_complete.

(* nothing is invented or duplicated: everything taken off the channel was enqueued, in order *)
Theorem C01_fifo : forall cap s, reachable cap s -> enq s = taken s ++ q s.
Proof. intros cap s R. now destruct (inv_reachable cap s R). Qed.
Print Assumptions C01_fifo.

Theorem C01_example : exists s, reachable 1 s /\ length (sent_ok s) = 2 /\ length (taken s) = 1 /\ got s = [7%Z].
Proof. exact tight_run. Qed.

(* ---- the COMPLETE in-process stream (model/InprocStream.v): both directions, header / trailer /
   error frames, Header() peeks, single-response probing, cancellation and deadline, and every
   interleaving of the client's sender, closer and receiver with the handler.  lreach is
   reachability with ghost histories of both channels and a log of what every operation returned. *)

(* responses: what the client's RecvMsg calls have returned is, in order, a prefix of what the
   handler's SendMsg calls put on the channel -- the sends acknowledged with nil followed by at
   most one send that reported the end of the handler's context *)
Theorem C01_full_stream_responses : forall rs s h,
  StreamDeliver.lreach rs s h ->
  exists unacked rest,
    StreamDeliver.handler_acked (StreamDeliver.lg h) ++ unacked = StreamDeliver.client_msgs (StreamDeliver.lg h) ++ rest /\
    length unacked <= 1.
Proof. exact StreamDeliver.response_delivery. Qed.
Print Assumptions C01_full_stream_responses.

(* requests: what the handler's RecvMsg calls have returned is a prefix of what the client's
   SendMsg calls put on the channel; unacknowledged ones exist only once the caller's context ended *)
Theorem C01_full_stream_requests : forall rs s h,
  StreamDeliver.lreach rs s h ->
  exists unacked rest,
    StreamDeliver.client_acked (StreamDeliver.lg h) ++ unacked = StreamDeliver.handler_msgs (StreamDeliver.lg h) ++ rest /\
    (unacked <> [] -> InprocStream.cctx s <> 0%Z).
Proof. exact StreamDeliver.request_delivery. Qed.
Print Assumptions C01_full_stream_requests.

(* the channels lose, duplicate and reorder nothing: pushed = popped ++ still queued *)
Theorem C01_full_stream_conservation : forall rs s h,
  StreamDeliver.lreach rs s h ->
  StreamDeliver.hp h = (StreamDeliver.hq h ++ InprocStream.respQ s)%list /\
  StreamDeliver.rp h = (StreamDeliver.rq h ++ InprocStream.reqQ s)%list.
Proof.
  intros rs s h R. split.
  - exact (StreamOrder.conservation _ _ _ _ (StreamDeliver.lreach_hreach _ _ _ R)).
  - exact (StreamDeliver.conservation_requests _ _ _ R).
Qed.
Print Assumptions C01_full_stream_conservation.

(* the ghost histories restrict nothing: every reachable state carries them *)
Theorem C01_full_stream_total : forall rs s, StreamInv.reachable rs s -> exists h, StreamDeliver.lreach rs s h.
Proof. exact StreamDeliver.reachable_has_log. Qed.
Print Assumptions C01_full_stream_total.

(* ---- the HTTP client stream as a concurrent system (model/HttpClient.v): the reader goroutine, the caller's
   receives, the transport's deliveries and the end of the context in every interleaving, for every reply body.
   hreach carries ghost histories: the frames the reader's loop read (rd), those the deferred ReadAll threw
   away (dn), and what RecvMsg returned (lg). *)

(* the messages RecvMsg has returned on an HTTP response stream are, in order, a prefix of the data frames of
   the reply body; and the reader takes the frames of the body once each, in order *)
Theorem C01_http_delivered_prefix : forall b0 e0 s rd dn lg,
  Grpchan.proofs.HttpClient.hreach true b0 e0 s rd dn lg -> Grpchan.model.HttpClient.respStream s = true ->
  exists rest, Grpchan.proofs.HttpClient.datas b0 = (Grpchan.proofs.HttpClient.msgs_of lg ++ rest)%list.
Proof. exact Grpchan.proofs.HttpClient.delivered_prefix. Qed.
Print Assumptions C01_http_delivered_prefix.

Theorem C01_http_read_in_order : forall rs b0 e0 s rd dn lg,
  Grpchan.proofs.HttpClient.hreach rs b0 e0 s rd dn lg ->
  exists lost, b0 = (rd ++ dn ++ Grpchan.model.HttpClient.body s ++ lost)%list.
Proof. exact Grpchan.proofs.HttpClient.read_in_order. Qed.
