(* C17 — client interceptors see every call once and wrap transparently. *)
From Coq Require Import ZArith String List Bool.
From Grpchan Require Import model.Intercept proofs.C17.
Import ListNotations.
Open Scope Z_scope.

Theorem C17_nil_identity : forall c, intercept_client c None None = c.
Proof. exact client_nil_identity. Qed.

Theorem C17_unwrap : forall c u s, (u <> None \/ s <> None) -> unwrap1 (intercept_client c u s) = Some c.
Proof. exact client_unwrap. Qed.
Print Assumptions C17_unwrap.

(* ANY nesting depth and nil/non-nil combination: every unary interceptor entered exactly once,
   outermost first, then the base channel, method/request/options/result unchanged, and the
   connection argument is the base's at every layer *)
Theorem C17_routing_unary : forall layers g tag m req opts l,
  invoke (stack layers (Base g tag)) m req opts l =
  (Ok (req + tag), l ++ client_enters (fun x => snd (fst x)) layers m req opts g ++ [BaseCall m req opts]).
Proof. intros. apply invoke_stack. Qed.
Print Assumptions C17_routing_unary.

Theorem C17_routing_stream : forall layers g tag m req opts l,
  new_stream (stack layers (Base g tag)) m req opts l =
  (Ok (req + tag), l ++ client_enters (fun x => snd x) layers m req opts g ++ [BaseCall m req opts]).
Proof. intros. apply new_stream_stack. Qed.
Print Assumptions C17_routing_stream.

(* arbitrary interceptors: a layer's interceptor gets the inner channel as continuation *)
Theorem C17_layer_unary : forall ui s inner m r o,
  invoke (Wrap (Some ui) s inner) m r o = ui m r (root_is_grpc inner) (invoke inner) o.
Proof. exact invoke_wrap_some. Qed.
Theorem C17_layer_stream : forall u si inner m r o,
  new_stream (Wrap u (Some si) inner) m r o = si m r (root_is_grpc inner) (new_stream inner) o.
Proof. exact new_stream_wrap_some. Qed.
Theorem C17_passthrough_unary : forall s inner, invoke (Wrap None s inner) = invoke inner.
Proof. exact invoke_wrap_none. Qed.
Theorem C17_passthrough_stream : forall u inner, new_stream (Wrap u None inner) = new_stream inner.
Proof. exact new_stream_wrap_none. Qed.

Theorem C17_cc_any_depth : forall layers g tag, root_is_grpc (stack layers (Base g tag)) = g.
Proof. exact root_stack. Qed.
Print Assumptions C17_cc_any_depth.

(* looking only at the directly wrapped channel (the repaired defect) is refuted at depth 2 *)
Theorem C17_cc_immediate_refuted : exists c, root_is_grpc c = true /\ immediate_is_grpc c = false.
Proof. exact immediate_refuted. Qed.
