(* C09 — deadlines cross the HTTP transport without extension or spurious expiry. *)
From Coq Require Import ZArith String Ascii List Bool.
From Grpchan Require Import lib.Int lib.Dec lib.Hex lib.Str gen.Units model.Timeout proofs.C09.
Open Scope Z_scope.

(* every remaining duration in int64: the handler gets the whole milliseconds of it
   (at least one): never later than the caller's, earlier by less than 1 ms *)
Theorem C09_roundtrip : forall r d,
  0 <= r < 2 ^ 63 -> decode_timeout (encode_timeout r) = Deadline d ->
  (1000000 <= r -> r - 1000000 < d <= r) /\ (r < 1000000 -> d = 1000000).
Proof. exact roundtrip_bounds. Qed.
Print Assumptions C09_roundtrip.

Theorem C09_roundtrip_defined : forall r, 0 <= r < 2 ^ 63 -> exists d, decode_timeout (encode_timeout r) = Deadline d.
Proof. intros r H. eexists. apply roundtrip. exact H. Qed.

(* as deadlines: not later than the caller's by more than transit, not earlier by 1 ms or more *)
Theorem C09_deadline_bracket : forall r d sent arrival,
  1000000 <= r < 2 ^ 63 -> sent <= arrival -> decode_timeout (encode_timeout r) = Deadline d ->
  let caller := sent + r in let handler := arrival + d in
  caller - 1000000 < handler /\ handler <= caller + (arrival - sent).
Proof. exact deadline_bracket. Qed.
Print Assumptions C09_deadline_bracket.

Theorem C09_no_deadline : client_header None = None /\ server_deadline None = NoDeadline.
Proof. exact no_deadline. Qed.

(* every non-negative int64 value with a valid unit gives that duration, saturating *)
Theorem C09_valid_values : forall v u,
  0 <= v < 2 ^ 63 -> spec_unit u <> None ->
  decode_timeout (fmt_d v ++ String (char_of u) EmptyString) = Deadline (Z.min (v * unit_of u) maxint64).
Proof. exact valid_values. Qed.
Print Assumptions C09_valid_values.

(* the code's unit switch is the wire specification's table *)
Theorem C09_units : forall u, spec_unit u <> None -> 0 <= u < 256 /\ spec_unit u = Some (unit_of u) /\ 0 < unit_of u.
Proof. exact valid_units. Qed.

(* no header string makes the server index out of range *)
Theorem C09_total : forall s, decode_timeout s <> Panic.
Proof. exact decode_total. Qed.
Print Assumptions C09_total.

Theorem C09_monotone : forall r1 r2, 0 <= r1 <= r2 -> millis r1 <= millis r2.
Proof. exact millis_mono. Qed.

Theorem C09_saturation_examples :
  decode_timeout "2562048H" = Deadline maxint64 /\ decode_timeout "99999999H" = Deadline maxint64 /\
  decode_timeout "5124096H" = Deadline maxint64 /\ decode_timeout "18446744074S" = Deadline maxint64 /\
  decode_timeout "2562047H" = Deadline 9223369200000000000.
Proof. exact saturation_examples. Qed.

(* without saturation the product of a valid wire value wraps to a negative duration *)
Theorem C09_unsaturated_refuted : wrap64 (2562048 * 3600000000000) < 0.
Proof. exact wrap_witness. Qed.

(* attempts: a header computed anew for the attempt that reaches the server keeps the bracket with THAT
   attempt's transit; the same header re-sent later only bounds the excess by the time since it was computed,
   and a concrete 3 s call (first attempt lost after 400 ms) exceeds the property's bound by 400 ms *)
Theorem C09_recomputed_header_bracket : forall r d computed sent2 arrival,
  let r2 := r - (sent2 - computed) in
  1000000 <= r2 -> r < 2 ^ 63 -> computed <= sent2 <= arrival ->
  decode_timeout (encode_timeout r2) = Deadline d ->
  let caller := computed + r in let handler := arrival + d in
  caller - 1000000 < handler /\ handler <= caller + (arrival - sent2).
Proof. exact recomputed_header_bracket. Qed.
Print Assumptions C09_recomputed_header_bracket.

Theorem C09_resent_header_bound : forall r d computed sent2 arrival,
  1000000 <= r < 2 ^ 63 -> computed <= sent2 <= arrival ->
  decode_timeout (encode_timeout r) = Deadline d ->
  arrival + d <= (computed + r) + (arrival - computed).
Proof. exact resent_header_bound. Qed.

Theorem C09_resent_header_refuted :
  exists r d computed sent2 arrival,
    1000000 <= r < 2 ^ 63 /\ computed <= sent2 <= arrival /\
    decode_timeout (encode_timeout r) = Deadline d /\
    (computed + r) + (arrival - sent2) + 1000000 < arrival + d.
Proof. exact resent_header_refuted. Qed.
Print Assumptions C09_resent_header_refuted.
