(* Message values with identity: a forest whose aggregate nodes carry a location.  A copy that
   allocates fresh locations stands for what proto.Clone / Merge / Unmarshal do. *)
From Coq Require Import ZArith List Bool Lia.
Import ListNotations.
Open Scope Z_scope.

Inductive val :=
| VNil
| VLeaf (z : Z) (next : val)                          (* a scalar field *)
| VNode (loc : Z) (ty : Z) (child : val) (next : val). (* bytes / repeated / map / nested message: own memory *)

Fixpoint locs (v : val) : list Z :=
  match v with
  | VNil => []
  | VLeaf _ nx => locs nx
  | VNode l _ ch nx => l :: locs ch ++ locs nx
  end.

(* content without identity *)
Fixpoint erase (v : val) : val :=
  match v with
  | VNil => VNil
  | VLeaf z nx => VLeaf z (erase nx)
  | VNode _ ty ch nx => VNode 0 ty (erase ch) (erase nx)
  end.

(* deep copy allocating locations from n upwards; returns the next free location *)
Fixpoint copy (v : val) (n : Z) : val * Z :=
  match v with
  | VNil => (VNil, n)
  | VLeaf z nx => let '(nx', n') := copy nx n in (VLeaf z nx', n')
  | VNode _ ty ch nx =>
      let '(ch', n1) := copy ch (n + 1) in
      let '(nx', n2) := copy nx n1 in
      (VNode n ty ch' nx', n2)
  end.

Lemma copy_erase v : forall n, erase (fst (copy v n)) = erase v.
Proof.
  induction v as [|z nx IH|l ty ch IHc nx IHn]; intro n; cbn; [reflexivity| |].
  - specialize (IH n). destruct (copy nx n). cbn in *. now rewrite IH.
  - specialize (IHc (n + 1)). destruct (copy ch (n + 1)) as [ch' n1]. specialize (IHn n1).
    destruct (copy nx n1). cbn in *. now rewrite IHc, IHn.
Qed.

Lemma copy_fresh v : forall n, n <= snd (copy v n) /\ Forall (fun l => n <= l < snd (copy v n)) (locs (fst (copy v n))).
Proof.
  induction v as [|z nx IH|l ty ch IHc nx IHn]; intro n; cbn.
  - split; [lia|constructor].
  - specialize (IH n). destruct (copy nx n). cbn in *. exact IH.
  - specialize (IHc (n + 1)). destruct (copy ch (n + 1)) as [ch' n1]. specialize (IHn n1).
    destruct (copy nx n1) as [nx' n2]. cbn in *. destruct IHc as [Hc1 Hc2], IHn as [Hn1 Hn2].
    split; [lia|]. constructor; [lia|]. apply Forall_app. split.
    + eapply Forall_impl; [|exact Hc2]. cbn. intros; lia.
    + eapply Forall_impl; [|exact Hn2]. cbn. intros; lia.
Qed.

Definition below (n : Z) (v : val) : Prop := Forall (fun l => l < n) (locs v).

Lemma copy_disjoint v src n x :
  below n src -> In x (locs (fst (copy v n))) -> ~ In x (locs src).
Proof.
  intros Hb Hin Hs. destruct (copy_fresh v n) as [_ F].
  rewrite Forall_forall in F. specialize (F x Hin).
  unfold below in Hb. rewrite Forall_forall in Hb. specialize (Hb x Hs). lia.
Qed.
