(* Generic support for correspondence files: which cases fail a boolean check. *)
From Coq Require Import ZArith List Bool.
Import ListNotations.
Open Scope Z_scope.

Fixpoint failing_from {A} (f : A -> bool) (l : list A) (i : Z) : list Z :=
  match l with
  | [] => []
  | x :: r => if f x then failing_from f r (i + 1) else i :: failing_from f r (i + 1)
  end.

Definition failing {A} (f : A -> bool) (l : list A) : list Z := failing_from f l 0.

Lemma failing_from_nil {A} (f : A -> bool) l i :
  failing_from f l i = [] -> forall x, In x l -> f x = true.
Proof.
  revert i; induction l as [|y r IH]; intros i H x Hx; [destruct Hx|].
  cbn [failing_from] in H. destruct (f y) eqn:E; [|discriminate].
  destruct Hx as [->|Hx]; [exact E|]. eapply IH; eauto.
Qed.

Lemma failing_nil {A} (f : A -> bool) l :
  failing f l = [] -> forall x, In x l -> f x = true.
Proof. apply failing_from_nil. Qed.

(* tagged variant: keep the tag of the failing reason *)
Fixpoint tagged_from {A T} (f : A -> option T) (l : list A) (i : Z) : list (Z * T) :=
  match l with
  | [] => []
  | x :: r => match f x with
              | None => tagged_from f r (i + 1)
              | Some t => (i, t) :: tagged_from f r (i + 1)
              end
  end.
Definition tagged {A T} (f : A -> option T) (l : list A) : list (Z * T) := tagged_from f l 0.

Definition option_eqb {A} (eqb : A -> A -> bool) (a b : option A) : bool :=
  match a, b with
  | None, None => true
  | Some x, Some y => eqb x y
  | _, _ => false
  end.

Fixpoint list_eqb {A} (eqb : A -> A -> bool) (a b : list A) : bool :=
  match a, b with
  | [], [] => true
  | x :: a', y :: b' => eqb x y && list_eqb eqb a' b'
  | _, _ => false
  end.

Fixpoint list_eqb2 {A B} (eqb : A -> B -> bool) (a : list A) (b : list B) : bool :=
  match a, b with
  | [], [] => true
  | x :: a', y :: b' => eqb x y && list_eqb2 eqb a' b'
  | _, _ => false
  end.

Lemma list_eqb_eq {A} (eqb : A -> A -> bool) :
  (forall x y, eqb x y = true <-> x = y) ->
  forall a b, list_eqb eqb a b = true <-> a = b.
Proof.
  intros H a; induction a as [|x a IH]; intros [|y b]; cbn; split; intro E;
    try reflexivity; try discriminate.
  - apply andb_true_iff in E as [E1 E2]. apply H in E1. apply IH in E2. congruence.
  - injection E as -> ->. apply andb_true_iff. split; [apply H|apply IH]; reflexivity.
Qed.
