(* Go's fmt "%d" and strconv.ParseInt(s, 10, bits) on top of the standard
   library's decimal strings, with the round trip.  Model of Go's standard
   library (trusted base), validated against the real functions by the
   correspondence runs. *)
From Coq Require Import ZArith String Ascii List Bool Lia.
From Coq Require Import DecimalString DecimalZ DecimalPos Decimal.
Open Scope Z_scope.

Definition fmt_d (z : Z) : string := NilZero.string_of_int (Z.to_int z).

Definition starts_with_sign (s : string) : bool :=
  match s with
  | String c _ => Ascii.eqb c "+" || Ascii.eqb c "-"
  | EmptyString => false
  end.

(* digits to Z, arbitrary precision *)
Definition parse_dec (s : string) : option Z :=
  let body := match s with
              | String c r => if Ascii.eqb c "+" then (if starts_with_sign r then EmptyString else r) else s
              | EmptyString => s
              end in
  option_map Z.of_int (NilZero.int_of_string body).

Definition in_bits (bits : Z) (v : Z) : bool :=
  (- 2 ^ (bits - 1) <=? v) && (v <? 2 ^ (bits - 1)).

(* strconv.ParseInt(s, 10, bits): None stands for any error (syntax or range) *)
Definition parse_int (s : string) (bits : Z) : option Z :=
  match parse_dec s with
  | Some v => if in_bits bits v then Some v else None
  | None => None
  end.

Lemma to_int_not_nil z : Z.to_int z <> Pos Nil /\ Z.to_int z <> Neg Nil.
Proof.
  destruct z as [|p|p]; cbn; split; try discriminate;
    intro H; injection H as H; revert H; apply DecimalPos.Unsigned.to_uint_nonnil.
Qed.

Lemma string_of_uint_no_plus d r :
  NilEmpty.string_of_uint d <> String "+" r.
Proof. destruct d; cbn; discriminate. Qed.

Lemma fmt_d_no_plus z r : fmt_d z <> String "+" r.
Proof.
  unfold fmt_d. destruct (Z.to_int z) as [d|d]; cbn.
  - destruct d; cbn; discriminate.
  - discriminate.
Qed.

Lemma parse_dec_fmt_d z : parse_dec (fmt_d z) = Some z.
Proof.
  unfold parse_dec.
  destruct (fmt_d z) as [|c r] eqn:E.
  - exfalso. unfold fmt_d in E. destruct (Z.to_int z) as [d|d]; cbn in E.
    + destruct d; cbn in E; discriminate.
    + discriminate.
  - destruct (Ascii.eqb c "+") eqn:Ec.
    + apply Ascii.eqb_eq in Ec; subst c. exfalso; eapply fmt_d_no_plus; eauto.
    + rewrite <- E. unfold fmt_d.
      destruct (to_int_not_nil z) as [H1 H2].
      rewrite NilZero.isi by assumption. cbn. now rewrite DecimalZ.of_to.
Qed.

Lemma parse_int_fmt_d z bits :
  in_bits bits z = true -> parse_int (fmt_d z) bits = Some z.
Proof. intro H. unfold parse_int. now rewrite parse_dec_fmt_d, H. Qed.

Lemma parse_int_range s bits v : parse_int s bits = Some v -> in_bits bits v = true.
Proof.
  unfold parse_int. destruct (parse_dec s); [|discriminate].
  destruct (in_bits bits z) eqn:E; [|discriminate]. now intros [= <-].
Qed.
