(* Fixed-width integer views, written out where a property is about them. *)
From Coq Require Import ZArith Lia.
Open Scope Z_scope.

Definition wrap64 (z : Z) : Z := (z + 2 ^ 63) mod 2 ^ 64 - 2 ^ 63.
Definition wrap32 (z : Z) : Z := (z + 2 ^ 31) mod 2 ^ 32 - 2 ^ 31.
Definition maxint64 : Z := 2 ^ 63 - 1.
Definition minint64 : Z := - 2 ^ 63.
Definition in64 (z : Z) : Prop := - 2 ^ 63 <= z < 2 ^ 63.
Definition in32 (z : Z) : Prop := - 2 ^ 31 <= z < 2 ^ 31.

Lemma wrap64_small z : in64 z -> wrap64 z = z.
Proof. unfold in64, wrap64. intro H. rewrite Z.mod_small by lia. lia. Qed.

Lemma wrap64_range z : in64 (wrap64 z).
Proof. unfold in64, wrap64. pose proof (Z.mod_pos_bound (z + 2 ^ 63) (2 ^ 64)). lia. Qed.

Lemma wrap32_small z : in32 z -> wrap32 z = z.
Proof. unfold in32, wrap32. intro H. rewrite Z.mod_small by lia. lia. Qed.

Lemma wrap32_range z : in32 (wrap32 z).
Proof. unfold in32, wrap32. pose proof (Z.mod_pos_bound (z + 2 ^ 31) (2 ^ 32)). lia. Qed.
