(* String helpers shared by the models (Go strings are byte strings). *)
From Coq Require Import ZArith String Ascii List Bool Lia.
From Grpchan Require Import lib.Hex.
Import ListNotations.
Open Scope Z_scope.

(* s[:len(s)-1], s[len(s)-1] *)
Fixpoint split_last (s : string) : option (string * ascii) :=
  match s with
  | EmptyString => None
  | String c EmptyString => Some (EmptyString, c)
  | String c r => match split_last r with
                  | Some (body, l) => Some (String c body, l)
                  | None => None
                  end
  end.

Lemma split_last_app s c : split_last (s ++ String c EmptyString) = Some (s, c).
Proof.
  induction s as [|a r IH]; [reflexivity|]. cbn [append split_last]. rewrite IH.
  destruct (r ++ String c EmptyString)%string eqn:E; [destruct r; discriminate|reflexivity].
Qed.

Lemma split_last_nonempty s : s <> EmptyString -> split_last s <> None.
Proof.
  induction s as [|a r IH]; [congruence|]. intros _.
  destruct r as [|b r']; [discriminate|].
  assert (H : split_last (String b r') <> None) by (apply IH; discriminate).
  change (split_last (String a (String b r'))) with
    (match split_last (String b r') with Some (body, l) => Some (String a body, l) | None => None end).
  destruct (split_last (String b r')) as [[? ?]|]; [discriminate|congruence].
Qed.

Definition byte_of (c : ascii) : Z := Z_of_ascii c.
Definition char_of (z : Z) : ascii := ascii_of_Z z.

Fixpoint has_prefix (p s : string) : bool :=
  match p, s with
  | EmptyString, _ => true
  | String a p', String b s' => Ascii.eqb a b && has_prefix p' s'
  | _, _ => false
  end.

Fixpoint drop (n : nat) (s : string) : string :=
  match n, s with
  | O, _ => s
  | S n', String _ r => drop n' r
  | _, EmptyString => EmptyString
  end.

Definition has_suffix (suf s : string) : bool :=
  let ls := String.length s in let lf := String.length suf in
  Nat.leb lf ls && String.eqb (drop (ls - lf) s) suf.

Definition lower_char (c : ascii) : ascii :=
  let n := Z_of_ascii c in if (65 <=? n) && (n <=? 90) then ascii_of_Z (n + 32) else c.

Fixpoint to_lower (s : string) : string :=
  match s with
  | EmptyString => EmptyString
  | String c r => String (lower_char c) (to_lower r)
  end.

Fixpoint str_mem (x : string) (l : list string) : bool :=
  match l with
  | [] => false
  | y :: r => String.eqb x y || str_mem x r
  end.
