(* Byte strings are printed by the harness as lower-case hex and decoded here
   inside vm_compute. *)
From Coq Require Import ZArith String Ascii List Bool.
Import ListNotations.
Open Scope Z_scope.

Definition hexval (c : ascii) : Z :=
  let n := Z.of_N (N_of_ascii c) in
  if (48 <=? n) && (n <=? 57) then n - 48
  else if (97 <=? n) && (n <=? 102) then n - 87
  else if (65 <=? n) && (n <=? 70) then n - 55
  else 0.

Fixpoint unhexb (s : string) : list Z :=
  match s with
  | String a (String b r) => (hexval a * 16 + hexval b) :: unhexb r
  | _ => []
  end.

Definition ascii_of_Z (z : Z) : ascii := ascii_of_N (Z.to_N z).
Definition Z_of_ascii (a : ascii) : Z := Z.of_N (N_of_ascii a).

Fixpoint string_of_bytes (l : list Z) : string :=
  match l with
  | [] => EmptyString
  | b :: r => String (ascii_of_Z b) (string_of_bytes r)
  end.

Fixpoint bytes_of_string (s : string) : list Z :=
  match s with
  | EmptyString => []
  | String a r => Z_of_ascii a :: bytes_of_string r
  end.

Definition unhex (s : string) : string := string_of_bytes (unhexb s).

Lemma Z_of_ascii_range a : 0 <= Z_of_ascii a < 256.
Proof.
  unfold Z_of_ascii. pose proof (N_ascii_bounded a) as H.
  split; [apply N2Z.is_nonneg|]. change 256 with (Z.of_N 256). now apply N2Z.inj_lt.
Qed.

Lemma ascii_of_Z_of_ascii a : ascii_of_Z (Z_of_ascii a) = a.
Proof. unfold ascii_of_Z, Z_of_ascii. rewrite N2Z.id. apply ascii_N_embedding. Qed.

Lemma string_of_bytes_of_string s : string_of_bytes (bytes_of_string s) = s.
Proof. induction s as [|a r IH]; cbn; [reflexivity|]. now rewrite ascii_of_Z_of_ascii, IH. Qed.
