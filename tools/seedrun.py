#!/usr/bin/env python3
"""Apply a seeded change (or the reverse of a fix: commit) to /repo's working tree, run the
named checks, and ALWAYS restore /repo.  usage:
   seedrun.py <seeded-id | path/to/patch.diff | revert:<commit>> C07 [C02 ...]"""
import json, os, subprocess, sys, time
ROOT = os.path.dirname(os.path.dirname(os.path.abspath(__file__)))

def sh(cmd, cwd=ROOT, inp=None):
    p = subprocess.run(cmd, cwd=cwd, input=inp, stdout=subprocess.PIPE, stderr=subprocess.STDOUT, text=True)
    return p.returncode, p.stdout

def main():
    what, props = sys.argv[1], sys.argv[2:]
    assert sh(["git", "status", "--porcelain", "--untracked-files=no"], "/repo")[1].strip() == "", "/repo has uncommitted changes"
    if what.startswith("revert:"):
        c = what.split(":", 1)[1]
        rc, diff = sh(["git", "diff", c + "~1", c], "/repo")
        rc, out = sh(["git", "apply", "-R", "-"], "/repo", diff)
    else:
        path = what if os.path.exists(what) else os.path.join(ROOT, "seeded", what, "patch.diff")
        rc, out = sh(["git", "apply", path], "/repo")
        if rc != 0:   # fix commits may have shifted the context: try a 3-way merge, but never keep conflict markers
            rc, out = sh(["git", "apply", "--3way", path], "/repo")
            if rc != 0 or "<<<<<<<" in sh(["git", "diff"], "/repo")[1]:
                rc, out = 1, "patch does not apply to the current tree (conflict): " + out
    if rc != 0:
        print("APPLY FAILED:", out)
        # unmerged index entries first, then the files (checkout refuses unmerged paths)
        sh(["git", "reset", "-q"], "/repo"); sh(["git", "checkout", "--", "."], "/repo")
        assert sh(["git", "status", "--porcelain", "--untracked-files=no"], "/repo")[1].strip() == "", "could not restore /repo"
        return 2
    results = {}
    saved = {}
    for p in props:   # evidence committed under /verif must come from the unchanged tree
        ep = os.path.join(ROOT, "evidence", p + ".json")
        saved[p] = open(ep).read() if os.path.exists(ep) else None
    try:
        for p in props:
            t = time.time()
            rc, out = sh(["./check", p])
            lines = [l for l in out.splitlines() if l.startswith(("VIOLATION", "KNOWN-FINDING")) or l.startswith(p + " ")]
            results[p] = {"exit": rc, "lines": lines, "s": round(time.time() - t, 1)}
            print(p, "exit", rc, "|", " | ".join(lines))
    finally:
        for p, txt in saved.items():
            ep = os.path.join(ROOT, "evidence", p + ".json")
            if txt is not None:
                open(ep, "w").write(txt)
        sh(["git", "reset", "-q"], "/repo")
        sh(["git", "checkout", "--", "."], "/repo")
        sh(["git", "clean", "-fdq", "--", "."], "/repo")
    d = os.path.join(ROOT, "seeded", what) if not what.startswith("revert:") and not os.path.exists(what) else None
    if d and os.path.isdir(d):
        rp = os.path.join(d, "result.json")
        old = json.load(open(rp)) if os.path.exists(rp) else {}
        old.update(results)
        json.dump(old, open(rp, "w"), indent=1)
    return 0

sys.exit(main())
