#!/bin/sh
# run every kept seeded change against the check of the property it breaks; results go to seeded/<id>/result.json
cd "$(dirname "$0")/.."
for d in seeded/*/; do
  id=$(basename $d)
  prop=${id%-*}
  python3 tools/seedrun.py $id $prop | tr '|' '\n' | grep -v KNOWN-FINDING | tr '\n' ' '
  echo
done
for c in f603aed:C12 a941b5e:C02 ee3a777:C04 59c28ed:C07 420d210:C07 5fb1a66:C04 826d46c:C13 a3e4a5f:C09 8d09158:C17 1297a7e:C08 fb27c51:C04 3cb8410:C02 ac4414b:C13 f6d1a9b:C05 e634965:C04 b0c5f19:C19 ea54872:C04; do
  commit=${c%:*}; prop=${c#*:}
  echo "revert $commit:"; python3 tools/seedrun.py revert:$commit $prop | tr '|' '\n' | grep -v KNOWN-FINDING | tr '\n' ' '; echo
done
