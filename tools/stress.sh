#!/bin/sh
# Determinism / false-alarm stress: run every claimed check N times while all cores are kept busy,
# and report every run that is not OK and every property whose generated case files differ
# between runs (the cases are derived from one PRNG state, so they must be byte-identical).
# usage: tools/stress.sh [N=3] [props...]     (evidence files are restored afterwards)
cd "$(dirname "$0")/.."
N=${1:-3}
[ $# -gt 0 ] && shift
PROPS="$*"
[ -z "$PROPS" ] && PROPS=$(python3 -c "import json;print(' '.join(c['property_id'] for c in json.load(open('MANIFEST.json'))['checks']))")
mkdir -p .work/stress
cp -r evidence .work/stress/evidence.saved
# load: one busy loop per core
PIDS=""
for i in $(seq 1 $(nproc)); do ( while :; do :; done ) & PIDS="$PIDS $!"; done
trap 'kill $PIDS 2>/dev/null; rm -rf evidence; mv .work/stress/evidence.saved evidence' EXIT INT TERM
bad=0
for p in $PROPS; do
  first=""
  for k in $(seq 1 $N); do
    out=$(./check $p 2>&1 | tail -1)
    h=$(cat .work/$p/cases_*.v 2>/dev/null | sha1sum | cut -c1-12)
    case "$out" in *"-> OK"*) ;; *) echo "NOT-OK $p run $k: $out"; bad=1;; esac
    if [ -z "$first" ]; then first=$h; elif [ "$h" != "$first" ]; then echo "NONDETERMINISTIC $p run $k: $h vs $first"; bad=1; fi
  done
  echo "$p: $N runs under load, cases $first"
done
exit $bad
