#!/usr/bin/env python3
"""Regenerates the table of seeded changes in DESIGN.md section 16 from seeded/*/{meta,result}.json."""
import json, glob, os, re
ROOT = os.path.dirname(os.path.dirname(os.path.abspath(__file__)))
rows = []
for d in sorted(glob.glob(os.path.join(ROOT, "seeded", "*"))):
    sid = os.path.basename(d)
    try:
        m = json.load(open(os.path.join(d, "meta.json")))
    except OSError:
        continue
    res = {}
    try:
        res = json.load(open(os.path.join(d, "result.json")))
    except OSError:
        pass
    prop = m["breaks_property"]
    r = res.get(prop, {})
    lines = [l for l in r.get("lines", []) if l.startswith("VIOLATION")]
    if m.get("neutralised_by"):
        verdict = "no longer breaks the property since fix %s (%s): demonstration passes with the change; check quiet, as it should be" % (m["neutralised_by"]["commit"], m["neutralised_by"]["finding"])
    elif r.get("exit") == 1 and lines:
        verdict = "caught (no failing input found)" if "no-failing-input-found" in lines[0] else "caught, with a failing input as replay"
    elif r:
        verdict = "MISSED"
    else:
        verdict = "not run"
    summ = (m.get("summary") or "").replace("|", "/").replace("\n", " ")
    need = (m.get("needs_to_manifest") or "").replace("|", "/").replace("\n", " ")
    rows.append("| %s | %s | %s | %s | %s |" % (sid, prop, summ[:260], need[:200], verdict))
table = "| Id | Breaks | Change | Needs, to manifest | `./check` of that property |\n|---|---|---|---|---|\n" + "\n".join(rows) + "\n"
p = os.path.join(ROOT, "DESIGN.md")
s = open(p).read()
begin, end = "<!-- seeded-table:begin -->", "<!-- seeded-table:end -->"
if begin in s:
    s = s[:s.index(begin) + len(begin)] + "\n" + table + s[s.index(end):]
    open(p, "w").write(s)
print(table[:400])
print(sum("caught" in r for r in rows), "caught,", sum("no longer breaks" in r for r in rows), "neutralised by a fix, of", len(rows))
