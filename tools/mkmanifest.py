#!/usr/bin/env python3
"""Regenerates MANIFEST.json from the table below (keeps it valid at all times)."""
import json, os, subprocess
ROOT = os.path.dirname(os.path.dirname(os.path.abspath(__file__)))

HOOK_COMMITS = ["2f8d038"]

# property -> (technique, level text, level note, design_ref)
CLAIMED = {
 "C07": ("Coq theorems over a byte-level model of the framing (round trip, allocation bound, no fabrication, truncation for every offset) with the size guards regenerated from io.go/client.go + replayed bodies against the real client and server",
         "Machine-checked proof (Coq 8.16): for EVERY byte string and either body ending, the modelled client loop (doHttpCall) and server RecvMsg request at most max_size bytes and never a negative size, deliver only messages that literally follow their own length prefix in the input, and round-trip every encodable stream; a reply cut at ANY offset before the end of the trailer frame yields an error and an intact prefix. The two size guards and the limit are regenerated from the source on every run (removing a guard breaks a named theorem). The model is tied to the code by feeding hostile prefixes, every truncation offset of generated streams, prefix mutations and random bytes to the real httpgrpc client (replaying RoundTripper) and server (crafted request bodies), comparing delivered frames and the final error class, with TotalAlloc observed.",
         "Trusted: Coq kernel; go2coq translation of the guards; models of binary.Read/io.ReadAtLeast EOF classification (validated by the runs); protobuf decoding of the trailer is an oracle input (real codec); actual resident memory is only observed (TotalAlloc).",
         "7/C07"),
 "C09": ("Coq theorems over the timeout codec with unit switch, multiplication/saturation, division and clamp regenerated from server.go/client.go + bracketed differential runs",
         "Machine-checked proof (Coq 8.16): for every remaining duration in int64 the header the client writes decodes on the server to the whole milliseconds of it (never later than the caller's deadline, earlier by less than 1 ms; as deadlines: within transit), no deadline without a caller deadline, every non-negative int64 value with each of the six wire units gives min(v*unit, MaxInt64) (saturation, proved against the generated multiplication with its int64 wrap), the code's unit switch equals the wire specification's table, and no header string makes the server index out of range. Tied to the code by regenerating the fragments on every run and by running contextFromHeaders on a header grammar (all units, 1-20 digits, signs, spaces, non-ASCII, int64 boundaries per unit) and headersFromContext on log-uniform durations, both bracketed by clock reads, plus loopback end-to-end calls checked against the caller's deadline.",
         "Trusted: Coq kernel; go2coq; the model of strconv.ParseInt/%d (lib/Dec.v, validated by the runs); clock readings make each comparison an interval. A value whose digits exceed int64 (>= 19 digits; the wire format allows 8) gives NO deadline: accepted as saturation (never earlier than asked), as fixed in DESIGN.md section 7/C09.",
         "7/C09"),
 "C15": ("Coq induction over arbitrary register/query/iterate/info histories of a list model of HandlerMap + random histories replayed on the real registry and the transports that delegate to it, with grpc.Server as reference for service info",
         "Machine-checked proof (Coq 8.16): after ANY history of operations a name resolves to the first successful registration under it and to nothing if never successfully registered; a duplicate or ill-typed registration panics and leaves the registry equal; names stay pairwise distinct so iteration visits every registration exactly once; service info equals the reference server's for descriptors with distinct method names. Tied to the code by replaying random histories (shared/duplicate descriptors, conforming, stale-signature, partial, unrelated and nil handlers, arbitrary metadata values) on grpchan.HandlerMap, inprocgrpc.Channel and httpgrpc.Server, comparing every answer with the model and, for service info, with a real grpc.Server given the same successful registrations.",
         "Trusted: Coq kernel; the list model of a Go map (iteration order is canonicalised by sorting); reflect-based interface conformance is an input of the model (the harness knows it by construction); grpc.Server's dedup of repeated method names is modelled by hand.",
         "7/C15"),
 "C16": ("Coq theorem that dispatch through a description decorated to any depth with arbitrary interceptor functions equals an independent chain specification + scripted interceptors interpreted on both sides over four carriers",
         "Machine-checked proof (Coq 8.16): for ANY interceptor functions, ANY nesting depth, ANY transport-supplied interceptor and ANY method body, the handler produced by InterceptServer equals the specification spec_chain (transport first, decorations from the outermost in, then the method; each gets exactly what its predecessor passed on and returns exactly what it produced), with the correct full method name and flags; no interceptors returns the original; names, flags and metadata are preserved. Tied to the code by interpreting random interceptor scripts (rewrite request/context/response, call onward 0/1/2 times, fail) on both sides: the description called directly, through WithInterceptor registries, through inprocgrpc.Channel and through httpgrpc.Server on loopback, unary and all stream kinds, comparing the ordered event log, the info each interceptor saw and the outcome; the input description is snapshotted before and after.",
         "Trusted: Coq kernel; the shape of handlers generated by protoc-gen-go-grpc (generated_handler) is an assumption about code outside grpchan; 'input description unmodified' is observed by the harness (pointer/name snapshot), not proved, since the model is pure.",
         "7/C16"),
 "C17": ("Coq induction over arbitrary stacks of client-interceptor layers + scripted client interceptors over fake, in-process and real *grpc.ClientConn bases",
         "Machine-checked proof (Coq 8.16): for ANY nesting depth and nil/non-nil combination per layer, each unary (stream) call passes through the unary (stream) interceptor of every layer that has one exactly once, outermost first, and then reaches the base with method, request and options unchanged; layers without an interceptor of that kind are skipped; no interceptors returns the original channel, otherwise unwrapping yields the wrapped one; the connection argument is the base's *grpc.ClientConn at every depth (the immediate-type-assertion variant is refuted at depth 2). Tied to the code by interpreting random client-interceptor scripts on both sides over depth 0-4 stacks on a recording channel, an in-process channel and a real (lazily dialled) *grpc.ClientConn, comparing event log, options seen at the base, results, identity of cc and of Unwrap().",
         "Trusted: Coq kernel; stream creation is modelled with the same routing shape as unary calls (the 'request' of a stream is a value carried in the context).",
         "7/C17"),
 "C19": ("Coq induction over arbitrary method lists (stream index = position among the streaming methods) + the built plugin binary run on random file descriptors with the emitted Go parsed and compared, and byte-identical regeneration of the checked-in stubs",
         "Machine-checked proof (Coq 8.16): for any number and interleaving of unary/server-/client-/bidi-streaming methods the stub of each method carries the path /<full service>/<method>, the call shape of its flags, and for streaming methods an index that selects that very method among the service's streaming methods in declaration order (counter invariant by induction); one registration function per service bound to its own description; every service counts its streams from zero. Tied to the code by building protoc-gen-grpchan from /repo on every run, feeding it CodeGeneratorRequests for random descriptors (0-4 services, 0-12 methods, snake/camel names, nested packages, imported types, the option matrix), parsing each emitted file with go/parser and comparing the extracted (register function, description, path, shape, Streams[i]) tuples with the model and with a position-based specification; regenerating grpchantesting/test.proto must reproduce test.pb.grpchan.go byte for byte.",
         "Trusted: Coq kernel; the AST extraction in the harness; CamelCase naming comes from the plugin's own name library; template rendering/gopoet are observed through the AST, not modelled; 'valid Go' is go/parser acceptance (type-checking would need protoc-gen-go output); the layout of ServiceDesc.Streams by the standard generator (declaration order of streaming methods) is an assumption about protoc-gen-go-grpc.",
         "7/C19"),
 "C12": ("Coq theorems over all method-name strings for the in-process router and over segment lists for path.Join + exhaustive-ish name grammar against both transports and both HTTP registration paths",
         "Machine-checked proof (Coq 8.16): for EVERY method-name string the in-process router runs a handler only for that handler's own name (with or without the leading slash) and kind, runs it for every registered name, answers Unimplemented otherwise and never indexes out of range; for every absolute base path and plain service/method segments client and server compute the same joined path and distinct (service, method) pairs give distinct paths. Over HTTP names with empty or dot segments are normalised by path.Join and reach the handler (refuted theorem, known finding F17). Tied to the code by running a name grammar (well-formed, no slash, empty, extra segments, prefixes/suffixes, dot segments, kind swapped, characters needing escaping) against random registries on inprocgrpc and on httpgrpc through Server/WithBasePath and HandleServices for ten base paths on loopback, recording which handler ran, plus path.Join itself against its model.",
         "Trusted: Coq kernel; hand-written models of path.Clean/Join and of ServeMux exact matching (legacy semantics, as in the repository's go 1.18 module), validated by the runs; URL escaping is exercised, not modelled.",
         "7/C12"),
 "C10": ("Coq theorems over arbitrary context chains (layer lists with a values-blocking layer) + random context expressions, nested in-process calls and metadata mutation probes against the real channel",
         "Machine-checked proof (Coq 8.16): for ALL caller context chains and ALL keys other than the four the library installs, the handler's context yields nothing (including gRPC's own outgoing-metadata key and an enclosing server's incoming metadata, peer and transport stream); incoming metadata is exactly the caller's outgoing metadata; peer is the in-process peer; the transport stream is the call's own; deadline and cancellation are the caller's; the client-context accessor returns the caller's chain; the same for calls nested inside handlers to any depth. Tied to the code by building random context expressions in Go (custom keys, gRPC keys through their public constructors, deadlines, cancellation, 0-2 enclosing in-process handlers, unary and streaming, with and without channel interceptors), evaluating them on the real channel and reading every key inside the handler, plus in-place mutation of the metadata on both sides.",
         "Trusted: Coq kernel; context.Context is modelled as a layer list (first match wins; deadline/cancel delegate through every layer); metadata isolation rests on grpc's copying accessors and is observed by mutation probes, not proved.",
         "7/C10"),
 "C13": ("Coq theorems over the credential decision and metadata join + exhaustive configuration run over http/https/in-process, unary/stream, with a request-counting RoundTripper and a TLS test server",
         "Machine-checked proof (Coq 8.16): credentials that require transport security over a non-https base URL fail the call with zero requests issued; a failing credential fails the call with zero requests; otherwise for every key the handler sees the caller's values followed by the credential's; with no credentials nothing changes; the peer carries TLS auth info iff the connection uses TLS and the scheme's default port when none is given. Tied to the code by running the whole finite configuration space {http, https, in-process} x {unary, stream} x {no creds, five credential maps (empty, disjoint, overlapping) x {requiring security or not}, failing credentials} x {peer option or not} against real servers (httptest plain and TLS) with a counting RoundTripper, observing the handler's metadata and peer and the grpc.Peer option.",
         "Trusted: Coq kernel; metadata.Join/New semantics modelled by hand (credential keys distinct and lower-case); TLS itself is not modelled (connection state is an input).",
         "7/C13"),
 "C11": ("Coq theorems over a total model of the HTTP handlers' gate-keeping with content types regenerated from protocol_versions.go + request grammar through the real handlers",
         "Machine-checked proof (Coq 8.16): for EVERY request (method, media type, header validity, body validity) and every handler outcome the application code runs at most once and only if the method is POST, the content type is one that kind supports and the headers decode; refusals are 405 (with Allow: POST), 415, 400 in that precedence; an undecodable unary body gives InvalidArgument with an error status and the application code is not reached; the JSON and protobuf encodings of a unary request are handled identically; a streaming reply that was started is data* followed by exactly one trailer frame, a refused one has no frames; JSON is not accepted for streams (obligation on the generated content types). Tied to the code by a request grammar (11 methods, 21 content types incl. parameters/case/garbage, -bin headers with valid and invalid base64, odd GRPC-Timeout values incl. empty, 11 bodies incl. JSON with unknown fields and wrong types) through HandleMethod/HandleStream with a recorder and through the Server's mux for unknown paths (404), observing status, Allow, X-GRPC-Status, the invocation counter and the reply's frame structure; recover() around every call.",
         "Trusted: Coq kernel; go2coq for the content-type constants; mime.ParseMediaType, base64 and the protobuf/JSON codecs are oracle inputs computed with the real libraries; net/http's ResponseRecorder stands for the wire.",
         "7/C11"),
 "C18": ("Coq theorems over the four adapters on messages with identity (forest values with locations, fresh-location copy) + mutation probes on the real adapters over generated, well-known and dynamic messages",
         "Machine-checked proof (Coq 8.16): for all four strategies, every message of any shape and size and every pre-populated destination, a successful Copy yields a destination equal to the source, keeping its own identity, holding nothing of its previous content and sharing no memory with the source; a successful Clone is equal, of the same type and disjoint; the previous content of a destination never influences the result; a destination of another message type and a pointer to a non-protobuf value are refused (not copied shallowly); generated and dynamic representations of one type copy into each other for the default, codec and copy-function strategies. Stated exceptions, each a refuted theorem and a known finding reproduced on the real code: F20 (codec Copy into a wire-compatible other type), F18 (Clone of a dynamic message through CopyFunc/CodecCloner panics), F22 (with a dynamic message on either side the non-codec strategies share byte memory and drop unknown fields: behaviour of the third-party dynamic library's merge), F23 (CloneFunc.Copy between dynamic messages of different types). Tied to the code by running Clone and Copy of all four adapters over 8 message kinds (test Message, HttpTrailer, StringValue, BytesValue, Any, Empty with unknown fields, two dynamic kinds; random population incl. maps, repeated Any, bytes, unknown fields) into pre-populated destinations of every kind, with proto.Equal, source snapshots and an in-place mutation probe in both directions through the reflection API.",
         "Trusted: Coq kernel; the protobuf runtime's Clone/Merge/Unmarshal are modelled by the reference deep copy (lib/Heap.v) and exercised, not proved; whether another type's parser accepts given bytes is an oracle input; the mutation probe's coverage of a message's mutable parts.",
         "7/C18"),
 "C14": ("Coq theorems over tables regenerated from codes.go by a Go-AST translator + exhaustive differential/correspondence run",
         "Machine-checked proof (Coq 8.16): the code->HTTP and HTTP->code tables and the renderer guard are regenerated from /repo's source on every run and the theorems (documented table, error status for every non-OK code over all of Z, the 499 rule, recovery of every uint32 code through the %d/ParseInt/int32 round trip, OK iff 2xx for every integer status) are re-proved against them; the hand-written glue (header precedence) is tied to the code by running real server, real client and loopback end-to-end calls on all codes 0..40, boundary and random uint32 codes, and all HTTP statuses 100..599.",
         "Trusted: Coq kernel; the go2coq translator (differentially tested on every run against the real functions); the model of fmt %d / strconv.ParseInt (lib/Dec.v); net/http's handling of the status header on loopback is observed, not proved.",
         "7/C14"),
}

REASON_PENDING = "check under construction in this session; will be claimed at level proof (DESIGN.md section 7)"

def main():
    checks = []
    for pid in sorted(CLAIMED):
        tech, text, note, ref = CLAIMED[pid]
        checks.append({
            "property_id": pid,
            "quick_cmd": "./check %s --tier quick" % pid,
            "thorough_cmd": "./check %s --tier thorough" % pid,
            "evidence_file": "evidence/%s.json" % pid,
            "replay_cmd_template": "./check %s --replay {path}" % pid,
            "engine": "coq-proof+correspondence",
            "level_claimed": {"category": "proof", "text": text, "design_ref": "DESIGN.md section " + ref},
            "level_note": note,
            "technique": tech,
        })
    na = [{"property_id": "C%02d" % i, "reason": REASON_PENDING} for i in range(1, 21) if "C%02d" % i not in CLAIMED]
    m = {
        "version": 1,
        "setup_cmd": "./setup.sh",
        "hooks": {
            "guard": "verif",
            "enable": "go build -tags verif (the harness module under /verif/harness replaces github.com/fullstorydev/grpchan with /repo and is rebuilt by every check)",
            "baseline_off_cmd": "cd /repo && GOFLAGS=-mod=mod GOPROXY=off GOSUMDB=off go test -json -vet=off -count=1 -timeout 25m ./...",
            "source_commits": HOOK_COMMITS,
            "add_only": True,
        },
        "engines": [{
            "name": "coq-proof+correspondence", "path": "check",
            "serves_properties": sorted(CLAIMED),
            "kind_free_text": "Coq 8.16 development under coq/ (models, proofs, property theorems); coq/gen regenerated from /repo by harness/cmd/go2coq on every run; Go harness (harness/cmd/harness, built with -tags verif against /repo's working tree) runs the implementation and writes case files that coqc evaluates against the model and the property oracle",
        }],
        "checks": checks,
        "notes": "All checks are `./check Cnn`; see DESIGN.md. VERIF_SEED seeds every random choice.",
        "not_applicable": na,
    }
    json.dump(m, open(os.path.join(ROOT, "MANIFEST.json"), "w"), indent=1)
    try:
        import jsonschema
        jsonschema.validate(m, json.load(open("/root/.vp/MANIFEST.schema.json")))
        print("MANIFEST.json valid:", len(checks), "checks")
    except ImportError:
        print("MANIFEST.json written (jsonschema not available)")

main()
