#!/bin/sh
# run every claimed check on the current tree (evidence is rewritten); prints one line per check
cd "$(dirname "$0")/.."
for p in $(python3 -c "import json;print(' '.join(c['property_id'] for c in json.load(open('MANIFEST.json'))['checks']))"); do
  ./check $p --tier ${1:-quick} | tail -3
done
