#!/usr/bin/env python3
"""Confirm a seeded change produced by a sub-agent, in a scratch worktree of /repo:
it applies, builds (with and without -tags verif), passes the existing suite, its
demonstration fails with the change and passes without.  On success the change is
kept as /verif/seeded/<prop>-<variant>/.   usage: seedverify.py C14 A [srcdir]"""
import json, os, shutil, subprocess, sys
ROOT = os.path.dirname(os.path.dirname(os.path.abspath(__file__)))
ENV = dict(os.environ, GOFLAGS="-mod=mod", GOPROXY="off", GOSUMDB="off", GOTOOLCHAIN="local")

def sh(cmd, cwd, timeout=1500):
    p = subprocess.run(cmd, cwd=cwd, env=ENV, stdout=subprocess.PIPE, stderr=subprocess.STDOUT, text=True, errors="replace", timeout=timeout, shell=isinstance(cmd, str))
    return p.returncode, p.stdout

def main():
    prop, var = sys.argv[1], sys.argv[2]
    src = sys.argv[3] if len(sys.argv) > 3 else "/tmp/seedout/%s/%s" % (prop, var)
    sid = "%s-%s" % (prop, var)
    meta = json.load(open(os.path.join(src, "meta.json")))
    wt = "/tmp/seedchk/" + sid
    subprocess.run(["git", "-C", "/repo", "worktree", "remove", "--force", wt], stdout=subprocess.DEVNULL, stderr=subprocess.DEVNULL)
    os.makedirs("/tmp/seedchk", exist_ok=True)
    rc, out = sh(["git", "-C", "/repo", "worktree", "add", "--detach", wt, "HEAD"], "/repo")
    res = {"id": sid, "property": prop, "steps": {}}
    ok = True
    try:
        patch = os.path.join(src, "patch.diff")
        rc, out = sh(["git", "apply", "--3way", patch], wt)
        if rc != 0:
            rc, out = sh(["git", "apply", patch], wt)
        res["steps"]["apply"] = rc == 0
        if rc != 0:
            res["apply_out"] = out[-1500:]
            ok = False
        if ok:
            # the patch as it applies to the current tree (fix commits may have shifted context)
            rc, newpatch = sh("git diff HEAD", wt)
            demo = os.path.join(wt, meta["demo_path"])
            rc1, o1 = sh("go build ./... && go build -tags verif ./...", wt)
            res["steps"]["build"] = rc1 == 0
            rc2, o2 = sh("go test -vet=off -count=1 -timeout 20m ./... 2>&1 | tail -15", wt)
            suite_ok = rc2 == 0 and "FAIL" not in o2
            if not suite_ok:  # the suite has a known timing flake; retry once
                rc2, o2 = sh("go test -vet=off -count=1 -timeout 20m ./... 2>&1 | tail -15", wt)
                suite_ok = rc2 == 0 and "FAIL" not in o2
            res["steps"]["suite_passes_with_change"] = suite_ok
            shutil.copyfile(os.path.join(src, "demo_test.go"), demo)
            pkg = "./" + os.path.dirname(meta["demo_path"]) if os.path.dirname(meta["demo_path"]) else "."
            rc3, o3 = sh(["go", "test", "-vet=off", "-count=1", "-timeout", "5m", "-run", "TestSeedDemo", pkg], wt)
            res["steps"]["demo_fails_with_change"] = rc3 != 0 and "TestSeedDemo" in o3
            res["demo_out_with_change"] = o3[-1200:]
            os.remove(demo)
            sh("git checkout -- . && git reset -q --hard HEAD", wt)
            shutil.copyfile(os.path.join(src, "demo_test.go"), demo)
            rc4, o4 = sh(["go", "test", "-vet=off", "-count=1", "-timeout", "5m", "-run", "TestSeedDemo", pkg], wt)
            res["steps"]["demo_passes_without_change"] = rc4 == 0
            if rc4 != 0:
                res["demo_out_without_change"] = o4[-1200:]
            ok = all(res["steps"].values())
            if ok:
                d = os.path.join(ROOT, "seeded", sid)
                os.makedirs(d, exist_ok=True)
                open(os.path.join(d, "patch.diff"), "w").write(newpatch)
                shutil.copyfile(os.path.join(src, "demo_test.go"), os.path.join(d, "demo_test.go"))
                m = {"id": sid, "breaks_property": prop, "summary": meta.get("summary"), "needs_to_manifest": meta.get("needs"),
                     "why_existing_tests_pass": meta.get("why_tests_pass"), "demo_path": meta["demo_path"],
                     "confirmed": res["steps"],
                     "what_was_run": ["git worktree add (scratch, outside /repo and /verif) at /repo HEAD", "git apply patch.diff",
                                      "go build ./... && go build -tags verif ./...", "go test -vet=off -count=1 ./... (full existing suite, passes)",
                                      "go test -run TestSeedDemo %s with the change (fails) and without (passes)" % pkg],
                     "source": "independent sub-agent given only the property text and its own scratch worktree"}
                json.dump(m, open(os.path.join(d, "meta.json"), "w"), indent=1)
    finally:
        subprocess.run(["git", "-C", "/repo", "worktree", "remove", "--force", wt], stdout=subprocess.DEVNULL, stderr=subprocess.DEVNULL)
        shutil.rmtree(wt, ignore_errors=True)
    res["ok"] = ok
    print(json.dumps(res if not ok else {"id": sid, "ok": True, "steps": res["steps"]}, indent=None))

main()
